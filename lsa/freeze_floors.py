#!/usr/bin/env python3
"""Development tool: measure per-rule instance counts on the current (reference) tree and write
lsa/floors.json (floor = one fifth of the measured count, at least 1: a refactoring that merges several instances into one generic helper legitimately lowers a count). Never run by a check."""
import json, os, sys, tempfile, shutil
VERIF = os.path.dirname(os.path.dirname(os.path.abspath(__file__)))
sys.path.insert(0, os.path.join(VERIF, "lsa", "rules"))
import engine, props
from engine import Ctx, Facts
tmp = tempfile.mkdtemp(prefix="lsa-floors.")
try:
    res = engine.extract(engine.QUICK[:1], tmp)
    F = Facts(res[0][1])
    floors = {}
    for pid, P in props.PROPS.items():
        ctx = Ctx(F); ctx.cfg_name = "ref"
        P["rules"](ctx)
        counts = {}
        for o in ctx.obs.values():
            counts[o.rule] = counts.get(o.rule, 0) + 1
        floors[pid] = {r: max(1, c // 5) for r, c in sorted(counts.items()) if r not in ("unclassified", "solver", "R-contract.write")}   # (the number of raw write sites depends on how the copies are spelled)
        print(pid, counts)
    json.dump(floors, open(os.path.join(VERIF, "lsa", "floors.json"), "w"), indent=1, sort_keys=True)
finally:
    shutil.rmtree(tmp, ignore_errors=True)
