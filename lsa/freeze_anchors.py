#!/usr/bin/env python3
"""Development tool: record the local functions of the reference tree (lsa/anchors.json: names the
rule tables may use) and a structural signature for each (lsa/anchor_sigs.json: container, parameter
and return types, safety, callees), used to recognise an anchor that was merely renamed or moved.
Never run by a check."""
import json, os, sys, tempfile, shutil
VERIF = os.path.dirname(os.path.dirname(os.path.abspath(__file__)))
sys.path.insert(0, os.path.join(VERIF, "lsa", "rules"))
import engine
from engine import Facts
from facts import callee_name
tmp = tempfile.mkdtemp(prefix="lsa-anchors.")
try:
    res = engine.extract(engine.QUICK, tmp)
    names, sigs = set(), {}
    for cfg, out, rc, err, dt in res:
        F = Facts(out, resolve_renames=False)
        for p, b in F.bodies.items():
            names.add(p)
            f = F.fns.get(p)
            if not f or b.j["kind"] == "closure":
                continue
            callees = sorted({callee_name(t) for _, t in b.calls()})
            sigs[p] = {"container": p.rsplit("::", 1)[0] if "::" in p else "", "name": p.rsplit("::", 1)[-1], "inputs": f.get("inputs", []), "output": f.get("output", ""),
                       "safety": f.get("safety"), "exported": bool(f.get("exported")), "callees": callees}
        sigs.setdefault("@adts", {})
        sigs.setdefault("@consts", {})
        for a in F.j["adts"]:
            own = a["path"]
            sigs["@adts"][own] = {"pub": a.get("vis") == "pub", "shape": [a["kind"], [[f["ty"].replace(own, "Self") for f in v["fields"]] for v in a["variants"]]],
                                  "variants": [v["name"] for v in a["variants"]]}
        for c in F.j["consts"]:
            if c["path"].endswith("_"):
                continue
            sigs["@consts"].setdefault(c["path"], {"val": {}})["val"][str(F.ptr_bits)] = [c.get("ty"), c.get("scalar"), c.get("deref_bytes"), c.get("bytes")]
    old = set(json.load(open(os.path.join(VERIF, "lsa", "anchors.json"))))
    print("anchors: %d (was %d; new %s; gone %s)" % (len(names), len(old), sorted(names - old)[:10], sorted(old - names)[:10]))
    json.dump(sorted(names), open(os.path.join(VERIF, "lsa", "anchors.json"), "w"), indent=0)
    json.dump(sigs, open(os.path.join(VERIF, "lsa", "anchor_sigs.json"), "w"), indent=0, sort_keys=True)
finally:
    shutil.rmtree(tmp, ignore_errors=True)
