"""API-surface rules (C02), Sync soundness + Send/Sync (C04), try/plain pairing (C05)."""
import re
from facts import callee_name, strip_refs
from guards import describe
from typestate import base_type, is_mut_ref, TRACKED_TYPES, entry_tuples, Solver

UW = "<core::result::Result<T, E> as UnwrapWithMsg>::unwrap_with_msg"


def rule_api_surface(ctx, rule="C02-api"):
    F = ctx.F
    bad = []
    n = 0
    for p, f in F.fns.items():
        if not f.get("exported"):
            continue
        n += 1
        out = f["output"]
        if re.search(r"&('\w+ )?mut (str|\[u8\]|u8)", out) or "*mut u8" in out or "*mut str" in out:
            bad.append("%s -> %s" % (p, out))
    ctx.ob(rule, "crate", "no-mutable-view-returned", not bad, how="none of %d exported functions returns &mut str / &mut [u8] / *mut u8" % n, detail="exported function hands out a mutable view of string storage (possibly shared or static): %s" % bad[:3])
    ctx.need(rule, "crate", "exported-fns", n >= 60, "only %d exported functions seen" % n, how="%d exported functions" % n)
    muts = [i for i in F.impls if i["self"] == "LeanString" and i["trait"] in ("core::ops::deref::DerefMut", "core::convert::AsMut", "core::borrow::BorrowMut", "core::ops::index::IndexMut")]
    ctx.ob(rule, "LeanString", "no-DerefMut/AsMut/BorrowMut/IndexMut", not muts, how="no mutable-view trait impl", detail="LeanString implements %s: safe code can write into shared/static storage" % [i["trait"] for i in muts])
    # unsafe mutable views stay crate-private
    for fn in ("repr::Repr::as_slice_mut", "repr::Repr::as_str_mut", "repr::Repr::set_len"):
        f = F.fns.get(fn)
        if f:
            ctx.ob(rule, fn, "private+unsafe", f["safety"] == "unsafe" and not f.get("exported"), how="unsafe and not exported", detail="%s is %s / exported=%s" % (fn, f["safety"], f.get("exported")))


def rule_send_sync(ctx, rule="C04-sendsync"):
    F = ctx.F
    for tr in ("core::marker::Send", "core::marker::Sync"):
        im = [i for i in F.impls if i["trait"] == tr and i["self"] == "LeanString"]
        ok = len(im) == 1 and im[0]["safety"] == "Unsafe" and im[0]["polarity"] == "Positive"
        ctx.ob(rule, "LeanString", tr.rsplit("::", 1)[1], ok, how="unsafe impl %s for LeanString" % tr.rsplit("::", 1)[1], detail="%s impl for LeanString: %s" % (tr, [(i["safety"], i["polarity"]) for i in im]))
    # Sync soundness: through a shared reference nothing is written (only atomic RMWs on the counter)
    S = Solver(F)
    n = 0
    for path, body in F.bodies.items():
        if body.j.get("safety") == "unsafe" or path == "repr::Repr::make_shallow_clone::ref_count_overflow":
            continue
        for i in range(1, body.arg_count + 1):
            ty = body.local_ty(i)
            bt = base_type(ty)
            if bt not in TRACKED_TYPES or not ty.strip().startswith("&") or is_mut_ref(ty):
                continue
            kinds = ("I", "S", "H")
            if bt.endswith("HeapBuffer"):
                kinds = ("H",)
            elif bt.endswith("StaticBuffer"):
                kinds = ("S",)
            elif bt.endswith("InlineBuffer"):
                kinds = ("I",)
            bad = []
            for t0 in entry_tuples(kinds):
                res, ev = S.walk(body, ("param", i), t0)
                for cls, t in res:
                    if t.dirty or t.asg:
                        bad.append("kind=%s: dirty=%s reassigned=%s" % (t0.kind, t.dirty, t.asg))
                wr = [c for (fn, site, c, key, desc, line, kk, crate) in ev if c in ("repr::Repr::as_slice_mut", "repr::Repr::as_str_mut", "repr::Repr::set_len", "repr::heap_buffer::HeapBuffer::realloc", "repr::heap_buffer::HeapBuffer::set_len")]
                if wr:
                    bad.append("reaches %s" % sorted(set(wr)))
            n += 1
            ctx.ob(rule, path, "shared-ref-param%d-readonly" % i, not bad, how="no store / reassignment / mutable view reachable through &%s" % bt.rsplit("::", 1)[-1],
                   detail="a function taking the handle by shared reference can write through it (&LeanString is shared between threads): %s" % bad[:3])
    ctx.need(rule, "crate", "shared-ref-fns", n >= 40, "only %d functions take a handle by shared reference" % n, how="%d functions take a handle by shared reference" % n)


PAIRS = ["with_capacity", "reserve", "shrink_to_fit", "shrink_to", "push", "pop", "push_str", "remove", "retain", "insert", "insert_str", "truncate"]


def find_unwrap_helper(F):
    """the crate's "unwrap or panic with the error's message" helper, found by shape (a trait method or
    a free fn): one Result<T, E> argument, returns its Ok payload, and its only call is to a diverging
    local fn that receives the Err payload"""
    for path, b in F.bodies.items():
        if b.arg_count != 1 or b.j["kind"] == "closure":
            continue
        if not b.local_ty(1).startswith("core::result::Result<"):
            continue
        ds = [describe(b, ("call", bb) if si == "term" else b.origin_rvalue(x)) for (bb, si, x) in b.defs.get(0, [])]
        calls = [(callee_name(t), t) for _, t in b.calls()]
        if ds == ["ok(p1)"] and len(calls) == 1 and calls[0][1].get("local_key") and calls[0][1]["target"] is None and describe(b, b.origin_operand(calls[0][1]["args"][0])) == "err(p1)":
            return path, calls[0][1]["local_key"]
    # no wrapper (the match is written out at every use, e.g. by a macro): the diverging function that
    # panics with the Display text of its only argument
    for path, b in F.bodies.items():
        if b.arg_count != 1 or b.j["kind"] == "closure" or not F.fns.get(path, {}).get("output", "").strip() == "!":
            continue
        names = [callee_name(t) for _, t in b.calls()]
        disp = [t for _, t in b.calls() if callee_name(t).endswith("::new_display")]
        if len(disp) == 1 and names and names[-1] == "core::panicking::panic_fmt" and describe(b, b.origin_operand(disp[0]["args"][0])) in ("p1", "mem:1", "local:1", "mem:error", "mem:err", "mem:e"):
            return None, path
    return None, None


def rule_pairing(ctx, rule="C05-pair"):
    F = ctx.F
    global UW
    uw, panic_fn = find_unwrap_helper(F)
    ctx.need(rule, "crate", "unwrap-helper", uw is not None or panic_fn is not None, "no `Result -> value or panic(message of the error)` helper found", how="unwrap helper: %s" % (uw or ("written out at each use; panics through %s" % panic_fn)))
    if uw is None and panic_fn is None:
        return
    UW = uw or panic_fn
    for nme in PAIRS:
        plain, tr = "LeanString::" + nme, "LeanString::try_" + nme
        b = F.bodies.get(plain)
        ctx.need(rule, plain, "anchor", b is not None and tr in F.bodies, "%s / %s not found" % (plain, tr))
        if not b or tr not in F.bodies:
            continue
        ds = [describe(b, ("call", bb) if si == "term" else b.origin_rvalue(x)) for (bb, si, x) in b.defs.get(0, [])]
        args = ", ".join("p%d" % i for i in range(1, b.arg_count + 1))
        want = "%s(%s(%s))" % (UW, tr, args)
        inlined = "ok(%s(%s))" % (tr, args)   # describe() shows a helper that did not exist on the reference tree by its result
        calls = [callee_name(t) for _, t in b.calls()]
        okp = ds in ([want], [inlined]) and calls == [tr, UW]
        if not okp and calls == [tr, UW] and F.fns.get(plain, {}).get("output", "").strip() == "()":
            # `self.try_x(..).unwrap_with_msg();` as a statement: nothing to return; the helper must still
            # receive the try_ form's own result, which must receive this function's arguments
            uwc = [t for _, t in b.calls() if callee_name(t) == UW]
            okp = len(uwc) == 1 and describe(b, b.origin_operand(uwc[0]["args"][0])) == "%s(%s)" % (tr, args)
        if not okp and ds == [inlined] and calls == [tr, panic_fn]:
            # `match self.try_x(..) { Ok(v) => v, Err(e) => panic_with_msg(e) }`
            pa = [describe(b, b.origin_operand(t["args"][0])) for _, t in b.calls() if callee_name(t) == panic_fn]
            okp = pa == ["err(%s(%s))" % (tr, args)]
        ctx.ob(rule, plain, "plain=try.unwrap_with_msg", okp, how="%s = try_%s(..).unwrap_with_msg()" % (nme, nme),
               detail="%s is %s (calls %s): the panicking form no longer fails exactly where and how the try_ form does" % (plain, ds, calls))
        f = F.fns.get(tr)
        if f:
            ctx.ob(rule, tr, "returns-ReserveError", f["output"].endswith("errors::reserve_error::ReserveError>"), how="try_%s returns Result<_, ReserveError>" % nme, detail="try_%s returns %s" % (nme, f["output"]))
    # the helper's Err arm panics with the error's Display and nothing else
    d = F.bodies.get(panic_fn)
    if d:
        names = [callee_name(t) for _, t in d.calls()]
        disp = [t for _, t in d.calls() if callee_name(t).endswith("::new_display")]
        ok = len(disp) == 1 and describe(d, d.origin_operand(disp[0]["args"][0])) in ("p1", "mem:1", "local:1", "mem:error", "mem:err") and names and names[-1] == "core::panicking::panic_fmt" and not any("new_debug" in n for n in names)
        ctx.ob(rule, d.path, "message=Display(err)", ok, how="panic!(\"{error}\"): the only argument is the error's Display", detail="the unwrap helper's panic builds its message with %s" % names)
    # constructors that cannot report: From<&str|String|&String|Box<str>> go through Repr::from_str and
    # turn its error into the message panic (unwrap_with_msg), possibly inside a private helper
    from guards import inlined_calls
    n = 0
    for i in F.impls:
        if i["self"] == "LeanString" and i["trait"] == "core::convert::From" and i["trait_args"] and i["trait_args"][0] in ("&str", "alloc::string::String", "&alloc::string::String", "alloc::boxed::Box<str>"):
            b = F.bodies.get(i["items"].get("from"))
            if b:
                n += 1
                names = [callee_name(t) for _, _, t in inlined_calls(b)]
                seen, leaves, users, parent = ctx.cg.reach([b.path])
                ok = "repr::Repr::from_str" in seen and (UW in names or UW in seen or panic_fn in names or panic_fn in seen) and not [x for x in names if x in FORBIDDEN_CONSUMERS]
                ctx.ob(rule, b.path, "from=from_str.unwrap_with_msg", ok, how="Repr::from_str(text) consumed by unwrap_with_msg", detail="From<%s> calls %s" % (i["trait_args"][0], names))
    ctx.need(rule, "crate", "From-ctors", n >= 4, "only %d From<text> constructors" % n, how="%d From<text> constructors" % n)
    # nowhere is a ReserveError-carrying Result consumed by a method that panics with another message
    bad = []
    for path, b in F.bodies.items():
        for bb, t in b.calls():
            nme = callee_name(t)
            if nme in FORBIDDEN_CONSUMERS and t["arg_tys"] and "errors::reserve_error::ReserveError>" in t["arg_tys"][0]:
                a0 = strip_refs(b.origin_operand(t["args"][0]))
                if nme.endswith("::unwrap_or_default") and a0[0] == "call" and callee_name(b.term(a0[1])) in ("LeanString::try_with_capacity",):
                    continue      # the pre-sizing hint: `try_with_capacity(hint).unwrap_or_default()` = Ok(buf) => buf, Err => new()
                bad.append("%s in %s (line %s)" % (nme, path, t.get("line")))
    ctx.ob(rule, "crate", "no-foreign-unwrap-of-ReserveError", not bad, how="no Result<_, ReserveError> is consumed by unwrap/expect/unwrap_unchecked", detail="allocation failure is turned into a different panic / UB: %s" % bad[:3])


def _uses_of(b, l, skip=None):
    """(bb, stmt-or-terminator) that mention local l as anything but a storage marker, a drop or the
    destination of the call at block `skip`"""
    out = []
    def has(x):
        if isinstance(x, dict):
            if x.get("l") == l and "p" in x:
                return True
            return any(has(v) for v in x.values())
        if isinstance(x, list):
            return any(has(v) for v in x)
        return False
    for bb, blk in enumerate(b.blocks):
        for s in blk["stmts"]:
            if s["k"] in ("live", "dead"):
                continue
            if has(s):
                out.append((bb, s))
        t = blk.get("term") or b.term(bb)
        if t["k"] == "drop":
            continue
        tt = dict(t)
        if bb == skip:
            tt.pop("dest", None)
        if has(tt):
            out.append((bb, t))
    return out


# consuming a Result without looking at which variant it is
_BLIND = ("core::result::Result::<T, E>::ok", "core::result::Result::<T, E>::is_ok", "core::result::Result::<T, E>::is_err", "core::result::Result::<T, E>::err",
          "core::result::Result::<T, E>::unwrap_or_default", "core::result::Result::<T, E>::unwrap_or", "core::mem::drop")


def _discarded(b, bb, depth=0):
    """the value produced by the call at bb is never examined"""
    d = b.term(bb).get("dest")
    if not d or d.get("p") or d["l"] == 0:
        return False
    us = _uses_of(b, d["l"], skip=bb)
    if not us:
        return True
    if depth < 2 and len(us) == 1 and isinstance(us[0][1], dict) and us[0][1].get("k") == "call" and callee_name(us[0][1]) in _BLIND:
        if callee_name(us[0][1]) == "core::mem::drop":
            return True
        return _discarded(b, us[0][0], depth + 1)
    # moved once into a temporary that is itself unused
    if depth < 2 and len(us) == 1 and us[0][1].get("k") == "assign" and us[0][1]["rv"]["k"] == "use" and not us[0][1]["lhs"].get("p"):
        l2 = us[0][1]["lhs"]["l"]
        return l2 != 0 and not _uses_of(b, l2, skip=None)[1:]
    return False


def rule_try_never_panics_on_alloc(ctx, rule="C05-trynopanic"):
    """who-may-call: nothing reachable from a `try_*` entry point turns a ReserveError into the message
    panic (the unwrap helper / its panic function) - the try forms report, the plain forms panic"""
    F, cg = ctx.F, ctx.cg
    uw, panic_fn = find_unwrap_helper(F)
    targets = {x for x in (uw, panic_fn) if x}
    n = 0
    for path, b in F.bodies.items():
        leaf = path.rsplit("::", 1)[-1]
        if not leaf.startswith("try_") or b.j["kind"] == "closure" or path.startswith("repr::"):
            continue
        n += 1
        seen, leaves, users, parent = cg.reach([path])
        hit = sorted(t for t in targets if t in seen)
        chain = []
        if hit:
            x = hit[0]
            while x in parent and len(chain) < 8:
                chain.append(x)
                x = parent[x]
        ctx.ob(rule, path, "no-message-panic", not hit, how="the unwrap helper is not reachable",
               detail="%s reaches %s (%s): the allocator's refusal becomes a panic in the form that promises to return ReserveError" % (path, hit[:1], " <- ".join(str(c) for c in chain)))
    ctx.need(rule, "crate", "try-entry-points", n >= 10, "only %d try_* entry points" % n, how="%d try_* entry points" % n)


# Err here is not a refused allocation: one line of reason each
NOT_AN_ALLOCATION = {
    "LeanString::from_static_str": "const fn; Repr::from_static_str fails only for a text longer than the length word holds, and the documented panic is `text is too long`",
}


def rule_error_reaches_panic(ctx, rule="C05-errsink"):
    """a function that cannot report a ReserveError (its return type does not carry one) and still
    calls a fallible operation hands the Result to the unwrap helper - the message panic is the only
    other way out.  Pre-sizing hints (try_reserve / try_with_capacity whose failure is deliberately
    ignored) are the listed exception.  Anything else turns "the allocator refused" into a different
    error, a default value or silence."""
    from r_own import _expr_calls
    F = ctx.F
    uw, panic_fn = find_unwrap_helper(F)
    sinks = {x for x in (uw, panic_fn) if x}
    hint = ("LeanString::try_reserve", "LeanString::try_with_capacity")
    n = 0
    for path, b in F.bodies.items():
        # (the storage layer hands its Results upwards, or sits behind an audited `unreachable_unchecked`
        # where an Err contradicts an invariant - C20-unchecked; this rule is about the layers above)
        if path.startswith("repr::") or path.startswith("<repr::"):
            continue
        out = (b.local_ty(0) or "") + " " + ((F.fns.get(path) or {}).get("output") or "")
        if "ReserveError" in out or "ToLeanStringError" in out or path in sinks or path in NOT_AN_ALLOCATION:
            continue
        for bb, t in b.calls():
            d = t.get("dest")
            if not d or d.get("p") or bb not in b.reachable(0):
                continue
            ty = b.local_ty(d["l"]) or ""
            if "errors::reserve_error::ReserveError" not in ty or "Result<" not in ty:
                continue
            nm = callee_name(t)
            if nm in hint or nm in sinks:
                continue
            # a projection / combinator step on such a Result (`.map(..)`, `Try::branch`) is judged by
            # what consumes its own result; the chain has to end in the unwrap helper
            n += 1
            reached = False
            for bb2, t2 in b.calls():
                if callee_name(t2) in sinks and t2["args"] and bb in _expr_calls(b.origin_operand(t2["args"][0])):
                    reached = True
            later = [bb2 for bb2, t2 in b.calls() if bb2 != bb and t2["args"] and "ReserveError" in (b.local_ty(t2["dest"]["l"]) or "") and not t2["dest"]["p"]
                     and any(bb in _expr_calls(b.origin_operand(a)) for a in t2["args"])]
            if later:
                continue      # flows into another Result-typed step, which is examined itself
            ctx.ob(rule, path, "error-reaches-the-message-panic:" + nm.rsplit("::", 1)[-1], reached, line=t.get("line"), how="Result handed to the unwrap helper",
                   detail="%s cannot return a ReserveError, and the Result of %s does not reach the unwrap helper: a refused allocation becomes something else than the documented panic" % (path, nm))
    ctx.need(rule, "crate", "fallible-calls-in-non-reporting-functions", n >= 5, "only %d such calls" % n, how="%d calls" % n)


# pre-sizing through the public API is a hint: every later write goes through the public, checked
# operations, which reserve for themselves and report (Extend<char> ignores a refused size hint)
HINT_OK = ("LeanString::try_reserve",)


def rule_errors_not_dropped(ctx, rule="C05-errused"):
    """error discipline: the Result<_, ReserveError> of every storage-layer call is looked at -
    propagated, matched or returned. `let _ = heap.realloc(..)` turns a refused allocation into Ok."""
    F = ctx.F
    n = 0
    for path, b in F.bodies.items():
        for bb, t in b.calls():
            d = t.get("dest")
            if not d or d.get("p"):
                continue
            ty = b.local_ty(d["l"]) or ""
            if "errors::reserve_error::ReserveError>" not in ty or not ty.startswith("core::result::Result<"):
                continue
            if bb not in b.reachable(0):
                continue
            n += 1
            if callee_name(t) in HINT_OK:
                continue
            if callee_name(t) == "repr::Repr::reserve" and not path.startswith("repr::"):
                # the same hint one level down, in a function that writes nothing itself: what it
                # appends afterwards goes through operations that reserve (and report) for themselves
                from guards import inlined_calls
                raw = ("repr::Repr::as_slice_mut", "repr::Repr::as_str_mut", "repr::Repr::set_len", "repr::heap_buffer::HeapBuffer::set_len", "core::ptr::copy", "core::ptr::copy_nonoverlapping",
                       "core::ptr::write", "core::slice::<impl [T]>::copy_from_slice", "repr::heap_buffer::HeapBuffer::realloc")
                if not any(callee_name(t2) in raw for _, _, t2 in inlined_calls(b)):
                    continue
            ctx.ob(rule, path, "result-examined:%s" % callee_name(t).rsplit("::", 1)[-1], not _discarded(b, bb), line=t.get("line"), how="Result of %s is propagated / matched" % callee_name(t),
                   detail="the Result<_, ReserveError> returned by %s is discarded: when the allocator refuses, the caller carries on (and reports Ok) as if the operation had happened" % callee_name(t))
    ctx.need(rule, "crate", "fallible-calls", n >= 20, "only %d calls returning Result<_, ReserveError>" % n, how="%d fallible storage calls" % n)


FORBIDDEN_CONSUMERS = ("core::result::Result::<T, E>::unwrap", "core::result::Result::<T, E>::expect", "core::result::Result::<T, E>::unwrap_unchecked",
                       "core::result::Result::<T, E>::unwrap_or_default")


def rule_witnesses(ctx, rule="WITNESS", which="C02/C04"):
    """thorough tier only, once per run (first configuration): the real trait solver agrees"""
    import engine
    if getattr(ctx, "tier", "quick") != "thorough" or not getattr(ctx, "is_first_cfg", False):
        return
    ok, npass, nfail, log = engine.run_witnesses()
    ctx.ob(rule, "witness", "doctests", ok and npass >= 8, how="%d compile / compile_fail witnesses pass under cargo +nightly test --doc (Send+Sync; no &mut str through Deref [E0596]; no as_mut_str [E0599]; no AsMut<str> [E0277]; each with a compiling twin)" % npass,
           detail="compile witnesses: %d passed, %d failed: %s" % (npass, nfail, log[-400:]))


def rule_ownership_primitives(ctx, rule="OWNPRIM"):
    """C03: transmutes to/from the handle types, mem::forget / ManuallyDrop, and mutable raw views of
    string storage occur only in the audited functions"""
    F = ctx.F
    HANDLE = ("repr::Repr", "repr::heap_buffer::HeapBuffer", "repr::inline_buffer::InlineBuffer", "repr::static_buffer::StaticBuffer", "LeanString")
    allowed_tm = {"repr::Repr::from_inline", "repr::Repr::from_heap", "repr::Repr::from_static"}
    seen = {}
    for path, b in F.bodies.items():
        for blk in b.blocks:
            for s in blk["stmts"]:
                if s["k"] == "assign" and s["rv"]["k"] == "cast" and s["rv"]["kind"] == "Transmute":
                    if s["rv"]["from"] in HANDLE or s["rv"]["to"] in HANDLE:
                        seen.setdefault(path, []).append("%s -> %s" % (s["rv"]["from"], s["rv"]["to"]))
    extra = {p: v for p, v in seen.items() if p not in allowed_tm}
    ctx.ob(rule, "crate", "transmutes", not extra and len(seen) >= 3, how="handle transmutes only in from_inline / from_heap / from_static (buffer -> Repr)", detail="transmute of a handle type outside the audited constructors: %s" % extra)
    for p, v in seen.items():
        if p in allowed_tm:
            ctx.ob(rule, p, "direction", all(x.endswith("-> repr::Repr") for x in v), how="buffer -> Repr", detail="%s transmutes %s" % (p, v))
    cl = [i for i in F.impls if i["self"] in ("repr::Repr", "repr::heap_buffer::HeapBuffer", "repr::inline_buffer::InlineBuffer", "repr::static_buffer::StaticBuffer") and i["trait"] in ("core::clone::Clone", "core::marker::Copy")]
    ctx.ob(rule, "crate", "no-Clone/Copy-on-raw-handles", not cl, how="Repr / HeapBuffer / InlineBuffer / StaticBuffer are neither Clone nor Copy (a by-value buffer is always a fresh one)", detail="raw handle type implements %s: handles can be duplicated without touching the reference count" % [(i["self"], i["trait"]) for i in cl])
    bad = []
    for path, b in F.bodies.items():
        for bb, t in b.calls():
            n = callee_name(t)
            tys = " ".join(t.get("generic_args", []) + t.get("arg_tys", []))
            # leaking primitives on any handle type; value-swapping ones only on the drop-less raw
            # handles (mem::take / replace / swap of a LeanString moves a value that still has its
            # drop glue: ownership is preserved)
            if n in ("core::mem::forget", "core::mem::ManuallyDrop::<T>::new", "core::mem::manually_drop::ManuallyDrop::<T>::new") and any(h in tys for h in ("repr::Repr", "LeanString", "HeapBuffer")):
                bad.append("%s in %s" % (n, path))
            if n in ("core::mem::replace", "core::mem::swap", "core::mem::take") and any(h in tys for h in ("repr::Repr", "HeapBuffer", "InlineBuffer", "StaticBuffer")):
                bad.append("%s in %s" % (n, path))
    ctx.ob(rule, "crate", "no-forget/ManuallyDrop/replace", not bad, how="no mem::forget / ManuallyDrop / mem::replace|swap|take on handle types", detail="ownership-bypassing primitive on a handle: %s" % bad[:3])


def rule_mut_views(ctx, rule="MUTVIEW"):
    """C02: mutable raw views are manufactured only in the audited functions"""
    F = ctx.F
    allowed = {"repr::Repr::as_slice_mut": "the contract-checked view", "repr::Repr::as_str_mut": "wraps as_slice_mut", "repr::Repr::retain": "dst slice inside the unique str view"}
    sites = {}
    for path, b in F.bodies.items():
        for bb, t in b.calls():
            n = callee_name(t)
            # constructors that turn a raw pointer into `&mut` (conversions between views that are
            # already `&mut` - as_bytes_mut, get_unchecked_mut, index_mut - hand out nothing new)
            if n in ("core::slice::raw::from_raw_parts_mut", "core::str::converts::from_utf8_unchecked_mut", "core::ptr::slice_from_raw_parts_mut",
                     "core::ptr::non_null::NonNull::<T>::as_mut", "core::ptr::mut_ptr::<impl *mut T>::as_mut", "core::ptr::mut_ptr::<impl *mut T>::as_mut_unchecked"):
                sites.setdefault(path, []).append(n.rsplit("::", 1)[1])
    extra = {p: v for p, v in sites.items() if p not in allowed and p not in _callers_only_from(F, p, allowed)}
    ctx.ob(rule, "crate", "raw-mutable-views", not extra and bool(sites), how="from_raw_parts_mut / from_utf8_unchecked_mut only in %s" % sorted(set(sites) & set(allowed)), detail="a mutable raw view of storage is built outside the audited functions: %s" % extra)


def _callers_only_from(F, p, allowed):
    from guards import anchors, callers_of
    if p in anchors(F):
        return set()
    cs = callers_of(F, p)
    return {p} if cs and all(cb.path in allowed for cb, _, _ in cs) else set()


def rule_atomics_syntactic(ctx, rule="P4"):
    """every atomic operation of the crate is one of the protocol's, on the reference counter"""
    F = ctx.F
    n = 0
    for path, b in F.bodies.items():
        for bb, t in b.calls():
            nm = callee_name(t)
            if not nm.startswith("core::sync::atomic::"):
                continue
            n += 1
            leaf = nm.rsplit("::", 1)[1]
            site = "%s#%d" % (leaf, sum(1 for i in range(bb) if b.term(i)["k"] == "call" and callee_name(b.term(i)) == nm))
            if leaf == "fence":
                ctx.ob(rule, path, "atomic:" + site, True, how="fence")
                continue
            if leaf == "new":
                a = describe(b, b.origin_operand(t["args"][0]))
                ctx.ob(rule, path, "atomic:" + site, a == "const:1", how="counter initialised to 1", detail="reference counter initialised to %s" % a)
                continue
            a0 = describe(b, b.origin_operand(t["args"][0]))
            on_counter = re.match(r"^repr::heap_buffer::HeapBuffer::reference_count\(", a0) is not None or re.match(r"^HDR\(.*\)\.\d$", a0) is not None
            ctx.ob(rule, path, "atomic:" + site, leaf in ("fetch_add", "fetch_sub", "load") and on_counter, how="%s on the reference counter" % leaf, line=t.get("line", 0),
                   detail="atomic operation %s on %s is outside the Arc protocol (only fetch_add / fetch_sub / load on the reference counter are allowed)" % (leaf, a0))
    ctx.need(rule, "crate", "atomic-sites", n >= 5, "only %d atomic operations found" % n, how="%d atomic operations" % n)
    # ... and nothing reads the counter any other way: a by-value read of a struct that contains it
    # (`header_ptr.read()`, a copy of the whole header) is a plain load racing with the other
    # owners' fetch_add / fetch_sub
    holders = set()
    for pth, a in F.adts.items():
        if any("core::sync::atomic::Atomic" in f["ty"] for v in a["variants"] for f in v["fields"]):
            holders.add(pth)
    changed = True
    while changed:
        changed = False
        for pth, a in F.adts.items():
            if pth not in holders and any(f["ty"].strip() in holders for v in a["variants"] for f in v["fields"]):
                holders.add(pth)
                changed = True
    nread = 0
    for path, b in F.bodies.items():
        for bb, t in b.calls():
            nm = callee_name(t)
            leaf = nm.rsplit("::", 1)[-1]
            if not ((nm.startswith("core::ptr::") or nm.startswith("core::mem::") or nm.startswith("core::intrinsics::")) and (leaf.startswith("read") or leaf.startswith("copy") or leaf in ("replace", "swap", "take", "transmute_copy"))):
                continue
            ga = t.get("generic_args") or []
            tys = [x.strip() for x in ga] + [re.sub(r"^(\*const |\*mut |&mut |&)", "", x).strip() for x in t.get("arg_tys", [])]
            hit = [x for x in tys if x in holders]
            if hit:
                nread += 1
                ctx.ob(rule, path, "by-value-read-of-counter-holder:" + leaf, False, line=t.get("line", 0),
                       detail="%s copies a whole %s, which contains the atomic reference counter: a non-atomic read of a location other owners update with fetch_add / fetch_sub (data race)" % (nm, hit[0]))
        for blk in b.blocks:
            for st in blk["stmts"]:
                if st["k"] == "assign" and st["rv"]["k"] == "use" and (st.get("lhs_ty") or "").strip() in holders:
                    o = st["rv"]["a"]
                    pl = o.get("cp") or o.get("mv")
                    if pl and "deref" in pl["p"]:
                        nread += 1
                        ctx.ob(rule, path, "by-value-read-of-counter-holder:move", False, line=st.get("line", 0),
                               detail="a whole %s (which contains the atomic reference counter) is read through a pointer by value" % st.get("lhs_ty"))
    if not nread:
        ctx.ob(rule, "crate", "no-by-value-read-of-counter-holder", True, how="%s are never read by value through a pointer" % sorted(holders))


WRAPPERS = {"try_reserve": "reserve", "try_shrink_to": "shrink_to", "try_shrink_to_fit": "shrink_to", "try_push_str": "push_str", "try_push": "push_str",
            "try_pop": "pop", "try_remove": "remove", "try_insert_str": "insert_str", "try_insert": "insert_str", "try_truncate": "truncate",
            "try_retain": "retain", "try_with_capacity": "with_capacity"}


def rule_wrappers_delegate(ctx, rule="WRAP", only=None):
    """the public try_* methods are the storage layer's operations: every path through a wrapper
    passes its Repr-level operation (directly or in a private helper) - a fast path that returns
    without it skips what the operation guarantees (exclusive ownership after reserve, the index
    checks, the growth rule ...) - and the size / index argument is handed over unchanged"""
    from guards import must_pass_call, inlined_sites
    F = ctx.F
    for w, tgt in WRAPPERS.items():
        if only and w not in only:
            continue
        fn, t = "LeanString::" + w, "repr::Repr::" + tgt
        b = F.bodies.get(fn)
        ctx.need(rule, fn, "anchor", b is not None and t in F.bodies, "%s / %s not found" % (fn, t))
        if not b:
            continue
        # (a sibling wrapper of the same operation counts: it has this very obligation itself)
        sib = {"LeanString::" + w2 for w2, t2 in WRAPPERS.items() if t2 == tgt and w2 != w}
        ctx.ob(rule, fn, "must-pass:" + tgt, must_pass_call(b, {t} | sib), how="every path through %s passes %s" % (w, t),
               detail="%s can return without calling %s: on that path the operation's own guarantees (made exclusive, validated, grown by the rule) are skipped" % (fn, t))
        if w in ("try_push", "try_insert"):
            # the char is handed over as its own UTF-8 encoding (no hand-made byte for "small" chars)
            from guards import inlined_sites as _is
            tg = {t} | sib
            for st in _is(b, lambda nm: nm in tg):
                a = st.desc(len(st.t["args"]) - 1)
                ctx.ob(rule, fn, "text=encode_utf8(ch):" + st.label(), re.match(r"^core::char::methods::<impl char>::encode_utf8\(p%d, " % b.arg_count, a) is not None, line=st.line,
                       how="the text appended is ch.encode_utf8(..)", detail="%s hands %s to %s: not the UTF-8 encoding of the char it was given" % (fn, a[:160], st.name))
        if w in ("try_reserve", "try_shrink_to", "try_with_capacity", "try_truncate", "try_remove"):
            for st in inlined_sites(b, lambda nm: nm == t):
                a = st.desc(len(st.t["args"]) - 1)
                ctx.ob(rule, fn, "argument-passthrough:" + tgt, a == "p%d" % b.arg_count, how="the caller's amount / index is forwarded unchanged", detail="%s forwards %s to %s" % (fn, a, t))
