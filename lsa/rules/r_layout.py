"""Layout / capacity agreement rules (C03 layout clause, C11 reader-writer agreement)."""
import re
from facts import callee_name, strip_refs
from guards import describe, guards_at, eval_int, find_call, inlined_sites, inlined_bodies, described_guards, anchors
from callgraph import ALLOC_SITES

HB = "repr::heap_buffer::HeapBuffer::"
CAP = "repr::heap_buffer::internal::Capacity::"
ADDS = ("core::num::<impl usize>::checked_add", "core::num::<impl usize>::wrapping_add", "core::num::<impl usize>::saturating_add")


def size_leaves(body, e, out, ops, depth=0, seen=None, sub=None):
    """decompose a size expression into additive leaves; record the combining operators"""
    e = strip_refs(e)
    if seen is None:
        seen = set()
    if depth > 40:
        out.append("...")
        return
    if e[0] == "loop":
        return
    if e[0] == "call":
        if ("call", e[1]) in seen:
            return
        seen.add(("call", e[1]))
        t = body.term(e[1])
        n = callee_name(t)
        if n.endswith("::from_residual"):
            return      # the None / Err handed on by `?`: not a size
        if n in ADDS:
            ops.add(n.rsplit("::", 1)[1])
            for a in t["args"]:
                size_leaves(body, body.origin_operand(a), out, ops, depth + 1, seen, sub)
            return
        if n in ("core::option::Option::<T>::ok_or", "core::option::Option::<T>::ok_or_else", "core::option::Option::<T>::and_then"):
            size_leaves(body, body.origin_operand(t["args"][0]), out, ops, depth + 1, seen, sub)
            if n.endswith("and_then"):
                # the closure adds the on-heap length word when the layout needs it
                clo = strip_refs(body.origin_operand(t["args"][1]))
                out.append("closure:" + describe(body, clo, 0, sub).split("{")[0])
            return
        key = t.get("local_key")
        F = body.facts
        if key and key in F.bodies and key not in anchors(F) and F.bodies[key].j["kind"] != "closure" and depth < 30:
            # the size is computed by a private helper: its result expressions, in this frame's terms
            hb = F.bodies[key]
            hsub = {i + 1: describe(body, body.origin_operand(a), 0, sub) for i, a in enumerate(t["args"])}
            for (dbb, si, x) in hb.defs.get(0, []):
                size_leaves(hb, ("call", dbb) if si == "term" else hb.origin_rvalue(x), out, ops, depth + 1, set(), hsub)
            return
        out.append(describe(body, e, 0, sub))
        return
    if e[0] == "agg" and e[1] in ("core::result::Result", "core::option::Option"):
        if e[2] in ("Ok", "Some") and len(e[3]) == 1:
            size_leaves(body, e[3][0], out, ops, depth + 1, seen, sub)
        return
    if e[0] == "field" and e[1][0] in ("bin",) and e[1][1] == "MulWithOverflow" and e[2] == 0 and (_is_bool_word(body, e[1][2]) or _is_bool_word(body, e[1][3])):
        ops.add("select")
        size_leaves(body, e[1][3] if _is_bool_word(body, e[1][2]) else e[1][2], out, ops, depth + 1, seen, sub)
        return
    if e[0] == "field" and e[1][0] in ("bin",) and e[1][1].endswith("WithOverflow") and e[2] == 0:
        ops.add("raw:" + e[1][1])
        size_leaves(body, e[1][2], out, ops, depth + 1, seen, sub)
        size_leaves(body, e[1][3], out, ops, depth + 1, seen, sub)
        return
    if e[0] == "bin" and e[1] in ("Mul", "MulWithOverflow", "MulUnchecked") and (_is_bool_word(body, e[2]) or _is_bool_word(body, e[3])):
        # `(flag as usize) * x`: x when the flag is set, nothing otherwise
        ops.add("select")
        size_leaves(body, e[3] if _is_bool_word(body, e[2]) else e[2], out, ops, depth + 1, seen, sub)
        return
    if e[0] == "bin":
        ops.add("raw:" + e[1])
        size_leaves(body, e[2], out, ops, depth + 1, seen, sub)
        size_leaves(body, e[3], out, ops, depth + 1, seen, sub)
        return
    if e[0] == "field" and e[1][0] == "downcast":
        # Ok / Some payload
        inner = strip_refs(e[1][1])
        if inner[0] == "mem":
            ds = body.defs.get(inner[1], [])
            if len(ds) == 1 and ds[0][1] == "term":
                inner = ("call", ds[0][0])
        if inner[0] == "call":
            ct = body.term(inner[1])
            if callee_name(ct).endswith("::branch"):
                size_leaves(body, body.origin_operand(ct["args"][0]), out, ops, depth + 1, seen, sub)
                return
        size_leaves(body, inner, out, ops, depth + 1, seen, sub)
        return
    if e[0] == "phi":
        for x in e[1]:
            size_leaves(body, x, out, ops, depth + 1, seen, sub)
        return
    if e[0] == "mem" or e[0] == "local":
        # a `let mut alloc_size` updated in place (32-bit): union of its definitions
        if e[1] in seen:
            return
        seen.add(e[1])
        ds = body.defs.get(e[1], [])
        for d in ds:
            x = ("call", d[0]) if d[1] == "term" else body.origin_rvalue(d[2])
            if x != e:
                size_leaves(body, x, out, ops, depth + 1, seen, sub)
        return
    out.append(describe(body, e, 0, sub))


def _const_leaf(F, l):
    """size leaves that are compile-time numbers are compared by value: size_of::<Header>() is the
    same thing as Layout::new::<Header>().size()"""
    if l == "core::mem::size_of::<repr::heap_buffer::Header>()":
        lay = F.layouts.get("repr::heap_buffer::Header")
        return "const:%d" % lay["size"] if lay else l
    if l == "core::mem::size_of::<usize>()":
        return "const:%d" % F.ptr_bytes
    return l


def _is_bool_word(body, e):
    e = strip_refs(e)
    if e[0] == "cast" and e[1] == "IntToInt":
        x = strip_refs(e[2])
        if x[0] == "phi":
            return all(y[0] == "const" and y[2] in (0, 1) for y in x[1])
        if x[0] in ("local", "mem", "param"):
            return body.local_ty(x[1]) == "bool"
        if x[0] == "call":
            t = body.term(x[1])
            return (not t["dest"]["p"]) and body.local_ty(t["dest"]["l"]) == "bool"
        if x[0] == "bin" and x[1] in ("Lt", "Le", "Gt", "Ge", "Eq", "Ne"):
            return True
        if x[0] == "const" and x[1] == "bool":
            return True
    return False


def rule_layout_agreement(ctx, rule="LAYOUT"):
    _rule_layout_agreement(ctx, rule)
    # the 32-bit-only parts of the same agreement
    rule_realloc_same_kind(ctx, rule)


def _rule_layout_agreement(ctx, rule="LAYOUT"):
    F = ctx.F
    lfc = F.bodies.get(HB + "layout_from_capacity")
    ctx.need(rule, HB + "layout_from_capacity", "anchor", lfc is not None, "layout_from_capacity not found")
    hdr = "core::mem::size_of::<repr::heap_buffer::Header>()"
    usz = "core::mem::size_of::<usize>()"
    if lfc:
        # the Ok-producing definition(s) of the return place
        okdefs = []
        for (bb, si, x) in lfc.defs.get(0, []):
            e = ("call", bb) if si == "term" else lfc.origin_rvalue(x)
            d = describe(lfc, e)
            if d.startswith("err(") or d.startswith("core::result::Result::Err{"):
                continue
            okdefs.append((e, d))
        ctx.need(rule, lfc.path, "ok-def", len(okdefs) == 1, "layout_from_capacity has %d non-error definitions of its result" % len(okdefs))
        for e, d in okdefs:
            # shape: the Layout returned is exactly Layout::from_size_align(SIZE, ALIGN) — as
            # `from_size_align(..).map_err(..)` or `match .. { Ok(l) => Ok(l), .. }` — with nothing
            # applied to it afterwards
            m = (re.match(r"^core::result::Result::<T, E>::map_err\(core::alloc::layout::Layout::from_size_align\(", d) or re.match(r"^core::result::Result::<T, E>::or\(core::alloc::layout::Layout::from_size_align\(.*, core::result::Result::Err\{errors::reserve_error::ReserveError::ReserveError\{\}\}\)$", d) or re.match(r"^core::result::Result::Ok\{ok\(core::alloc::layout::Layout::from_size_align\(", d)
                 or re.match(r"^core::result::Result::Ok\{tuple::None\{ok\(core::alloc::layout::Layout::from_size_align\(", d))
            ctx.ob(rule, lfc.path, "layout=from_size_align(size, align)", bool(m), how="result is Layout::from_size_align(size, align) with the error mapped to ReserveError, untransformed",
                   detail="layout_from_capacity post-processes the layout (%s...): realloc sizes the block by hand and would disagree" % d[:120])
            fb = find_call(lfc, e, ("core::alloc::layout::Layout::from_size_align",))
            if m and fb is not None:
                t = lfc.term(fb)
                leaves, ops = [], set()
                size_leaves(lfc, lfc.origin_operand(t["args"][0]), leaves, ops)
                leaves = [_const_leaf(F, l) for l in leaves]
                want = {_const_leaf(F, hdr), CAP + "as_usize(p1)"}
                got = set(l for l in leaves if not l.startswith("closure:")) - {_const_leaf(F, usz)}
                ctx.ob(rule, lfc.path, "size=header+capacity", got == want and ops <= {"checked_add", "select"},
                       how="size = checked(size_of::<Header>() + capacity [+ size_of::<usize>() in the on-heap-length layout])",
                       detail="layout size is built from %s with %s" % (sorted(leaves), sorted(ops)))
                al = describe(lfc, lfc.origin_operand(t["args"][1]))
                # every allocator call takes its layout from this function, so any alignment agrees with
                # itself; what must hold is that it is one compile-time constant (not a function of
                # the capacity: realloc keeps the alignment of the old layout)
                ctx.ob(rule, lfc.path, "align", re.search(r"\bp\d+\b|phi\(|mem:|local:", al) is None, how="alignment is a compile-time constant (%s)" % al, detail="layout alignment is %s: it depends on the capacity or on a run-time value, realloc reuses the old layout's alignment" % al)
    # allocator call sites take their layout from layout_from_capacity of the capacity stored in the header
    re_hdr_cap = r"repr::heap_buffer::HeapBuffer::layout_from_capacity\(HDR\(p1\)\.%d\)" % _cap_index(F)
    # allocator call sites, seen from the audited functions (through private helpers they call):
    # operands are described in the audited function's terms
    for path, root in F.bodies.items():
        if path not in anchors(F) or root.j["kind"] == "closure":
            continue
        for st in inlined_sites(root, lambda nm: nm in ("alloc::alloc::alloc", "alloc::alloc::dealloc", "alloc::alloc::realloc")):
            n = st.name
            if n == "alloc::alloc::alloc":
                d = st.desc(0)
                ctx.ob(rule, path, "alloc-layout", d in ("ok(%slayout_from_capacity(p1))" % HB, "ok(%slayout_from_capacity(p1)).0" % HB), how="alloc(layout_from_capacity(capacity)?)", detail="alloc called with layout %s" % d)
            elif n == "alloc::alloc::dealloc":
                d = st.desc(1)
                ctx.ob(rule, path, "dealloc-layout", re.search(re_hdr_cap, d) is not None, how="dealloc(layout_from_capacity(header().capacity))", detail="dealloc called with layout %s" % d)
                p = st.desc(0)
                ctx.ob(rule, path, "dealloc-ptr", p == _alloc_start_desc(root), how="dealloc(start of the allocation, ..)", detail="dealloc called with pointer %s" % p)
            elif n == "alloc::alloc::realloc":
                d = st.desc(1)
                ctx.ob(rule, path, "realloc-old-layout", re.search(re_hdr_cap, d) is not None, how="realloc(.., layout_from_capacity(header().capacity), ..)", detail="realloc called with old layout %s" % d)
                leaves, ops = [], set()
                size_leaves(st.body, st.body.origin_operand(st.t["args"][2]), leaves, ops, sub=st.subst[-1])
                newcap = CAP + "as_usize(ok(%snew(p2)))" % CAP
                leaves = [_const_leaf(F, l) for l in leaves]
                want = {_const_leaf(F, hdr), newcap}
                got = set(leaves)
                extra = got - want - {_const_leaf(F, usz)} - {"const:0"}      # (`+ 0` on the arm without the slot)
                ok = want <= got and not extra and ops <= {"wrapping_add", "saturating_add", "checked_add", "select"}
                if F.ptr_bits == 64:
                    ok = ok and _const_leaf(F, usz) not in got
                ctx.ob(rule, path, "realloc-new-size", ok, how="new size = size_of::<Header>() + new_capacity%s, the function layout_from_capacity computes" % (" (+ size_of::<usize>() when the length lives in the allocation)" if F.ptr_bits == 32 else ""),
                       detail="realloc's new size is built from %s with %s: disagrees with layout_from_capacity (the block would later be released with a different size)" % (sorted(leaves), sorted(ops)))
    # Header values: written only next to an allocator call, with the capacity that sized the block
    writers = {}

    def hdr_aggs(b, sub, acc, d=2, seen=()):
        for bb, blk in enumerate(b.blocks):
            for s_ in blk["stmts"]:
                if s_["k"] == "assign" and s_["rv"]["k"] == "aggregate" and s_["rv"].get("adt") == "repr::heap_buffer::Header":
                    acc.append([describe(b, b.origin_operand(f), 0, sub) for f in s_["rv"]["fields"]])
        for bb, t in b.calls():
            k = t.get("local_key")
            if k and k in F.bodies and k not in anchors(F) and F.bodies[k].j["kind"] != "closure" and d > 0 and k not in seen:
                hdr_aggs(F.bodies[k], {i + 1: describe(b, b.origin_operand(a), 0, sub) for i, a in enumerate(t["args"])}, acc, d - 1, seen + (k,))

    for path, b in F.bodies.items():
        if path not in anchors(F) or b.j["kind"] == "closure":
            continue
        acc = []
        hdr_aggs(b, None, acc)
        if acc:
            writers[path] = acc
    expect = {HB + "allocate_ptr": "p1", HB + "realloc": "ok(%snew(p2))" % CAP}
    ctx.ob(rule, "repr::heap_buffer::Header", "writers", set(writers) == set(expect), how="Header built only in allocate_ptr and realloc",
           detail="Header aggregates are built in %s (audited: %s)" % (sorted(writers), sorted(expect)))
    hadt = F.adts.get("repr::heap_buffer::Header")
    # header fields by what they hold (their names are the crate's business)
    idx = {}
    for i, f in enumerate(hadt["variants"][0]["fields"] if hadt else []):
        if "atomic::Atomic" in f["ty"]:
            idx["count"] = i
        elif f["ty"].endswith("::Capacity"):
            idx["capacity"] = i
    for path, lst in writers.items():
        for fs in lst:
            if "count" in idx:
                c = fs[idx["count"]]
                ctx.ob(rule, path, "header.count=1", c == "core::sync::atomic::Atomic::<usize>::new(const:1)", how="count initialised to AtomicUsize::new(1)", detail="fresh header count is %s" % c)
            if "capacity" in idx and path in expect:
                c = fs[idx["capacity"]]
                ctx.ob(rule, path, "header.capacity=sized", c == expect[path], how="header.capacity is the capacity the block was sized with (%s)" % expect[path], detail="header.capacity written as %s but the block is sized with %s" % (c, expect[path]))
    # any other store into the header?  (field writes through header()/header_mut())
    for path, b in F.bodies.items():
        for bb, blk in enumerate(b.blocks):
            for s in blk["stmts"]:
                if s["k"] == "assign" and s["lhs"]["p"]:
                    lt = b.local_ty(s["lhs"]["l"])
                    if "heap_buffer::Header" in lt:
                        ctx.ob(rule, path, "header-field-store", False, line=s.get("line", 0),
                               detail="a Header field is stored in place (outside the write of a fresh header next to the allocator call): the recorded capacity can disagree with the block's real size")


def _cap_index(F):
    hadt = F.adts.get("repr::heap_buffer::Header")
    if hadt:
        for i, f in enumerate(hadt["variants"][0]["fields"]):
            if f["name"] == "capacity" or f["ty"].endswith("::Capacity"):
                return i
    return 1


def _alloc_start_desc(b):
    """what `self.allocation()` describes as — whatever the accessor is called, realloc and dealloc
    must hand the allocator the same pointer expression"""
    F = b.facts
    for path in (HB + "realloc",):
        rb = F.bodies.get(path)
        if rb:
            for st in inlined_sites(rb, lambda nm: nm == "alloc::alloc::realloc"):
                return st.desc(0)
    return HB + "allocation(p1)"


def rule_null_checks(ctx, rule="NULLCHK"):
    """the result of alloc / realloc is tested with is_null on an edge dominating every other use;
    the null edge returns Err(ReserveError)"""
    from guards import edge_fact
    F = ctx.F
    n = 0
    for path, b in F.bodies.items():
        for bb, t in b.calls():
            if callee_name(t) in ("alloc::alloc::alloc", "alloc::alloc::realloc", "alloc::alloc::alloc_zeroed"):
                n += 1
                is_null_fact = lambda g, val: g[0] == "pred" and g[1].endswith("::is_null") and g[3] is val and g[2] is not None and _rooted_in_call(b, g[2], bb)
                chk = [cb for cb, ct in b.calls() if callee_name(ct).endswith("::is_null") and _rooted_in_call(b, b.origin_operand(ct["args"][0]), bb)]
                ctx.ob(rule, path, "is_null:" + callee_name(t), len(chk) >= 1, how="allocator result tested with is_null", detail="allocator result never tested for null")
                if not chk:
                    continue
                # every other use of the pointer lies behind the non-null edge of that test (whatever
                # wraps the test: `if p.is_null()`, `if unlikely(p.is_null())`, a match on the bool)
                ok, bad_use = True, None
                for ub, ut in b.calls():
                    if ub == bb or ub in chk or ub in b.debug_only_blocks():
                        continue
                    if any(_rooted_in_call(b, b.origin_operand(a), bb) for a in ut["args"]):
                        if callee_name(ut).endswith("::is_null") or (ut.get("local_key") and _passes_through(F, ut["local_key"])):
                            continue
                        if not any(is_null_fact(g, False) for g in guards_at(b, ub)):
                            ok, bad_use = False, callee_name(ut)
                ctx.ob(rule, path, "use-after-check:" + callee_name(t), ok, how="every use of the pointer is dominated by the non-null edge",
                       detail="allocator result used (%s) on a path that did not pass the null test" % bad_use)
                # null edge returns Err and does nothing else
                null_ts = []
                for sb in range(b.n):
                    st = b.term(sb)
                    if st["k"] != "switch":
                        continue
                    for lab, tgt in [(v, x) for v, x in st["arms"]] + [("otherwise", st["otherwise"])]:
                        f = edge_fact(b, sb, lab)
                        if f and is_null_fact(f, True):
                            null_ts.append(tgt)
                ctx.ob(rule, path, "null-edge:" + callee_name(t), bool(null_ts), how="a branch on is_null exists", detail="no branch is taken on the null test of the allocator result")
                for null_t in null_ts[:1]:
                    reach = b.reachable(null_t, unwind=False)
                    calls = [callee_name(b.term(x)) for x in reach if b.term(x)["k"] == "call" and not (b.term(x).get("local_key") and _is_noop(F, b.term(x)["local_key"]))]
                    # (an Err built in place, or by a private effect-free helper such as `reserve_failed()`)
                    errs = [dbb for (dbb, si, x) in b.defs.get(0, []) if dbb in reach and describe(b, ("call", dbb) if si == "term" else b.origin_rvalue(x)).startswith(("core::result::Result::Err{", "err("))]
                    ctx.ob(rule, path, "null->Err:" + callee_name(t), bool(errs) and not calls, how="null edge builds Err(ReserveError) and returns", detail="null edge does %s instead of just returning Err" % (calls or "not build Err"))
    ctx.need(rule, "crate", "allocator-sites", n >= 2, "only %d allocator call sites found" % n, how="%d allocator call sites" % n)


def _is_noop(F, key, depth=0):
    """a local fn with no effect: no stores through pointers, only calls to other such fns (cold_path())"""
    hb = F.bodies.get(key)
    if hb is None or depth > 2:
        return False
    for blk in hb.blocks:
        for s in blk["stmts"]:
            if s["k"] == "assign" and s["lhs"]["p"] and "deref" in s["lhs"]["p"]:
                return False
    for _, t in hb.calls():
        k = t.get("local_key")
        if not (k and _is_noop(F, k, depth + 1)):
            return False
    return True


def _passes_through(F, key):
    """a local bool -> bool hint such as `unlikely(cond)`: returns its argument, no effect"""
    hb = F.bodies.get(key)
    if hb is None or not _is_noop(F, key):
        return False
    ds = hb.defs.get(0, [])
    return len(ds) == 1 and ds[0][1] != "term" and strip_refs(hb.origin_rvalue(ds[0][2])) == ("param", 1)


def _rooted_in_call(body, e, bb, depth=0):
    e = strip_refs(e)
    if depth > 10:
        return False
    if e == ("call", bb):
        return True
    if e[0] == "phi":
        return any(_rooted_in_call(body, x, bb, depth + 1) for x in e[1])
    if e[0] in ("mem", "local"):
        for d in body.defs.get(e[1], []):
            x = ("call", d[0]) if d[1] == "term" else body.origin_rvalue(d[2])
            if x != e and _rooted_in_call(body, x, bb, depth + 1):
                return True
        return False
    if e[0] == "call":
        t = body.term(e[1])
        n = callee_name(t)
        if n.startswith("core::ptr::") and t["args"]:
            return _rooted_in_call(body, body.origin_operand(t["args"][0]), bb, depth + 1)
        return False
    if e[0] == "cast":
        return _rooted_in_call(body, e[2], bb, depth + 1)
    return False


# ----------------------------------------------------------------------------- C11
def rule_capacity_agreement(ctx, rule="C11-cap"):
    F = ctx.F
    hb = F.bodies.get(HB + "capacity")
    ctx.need(rule, HB + "capacity", "anchor", hb is not None, "HeapBuffer::capacity not found")
    hadt = F.adts.get("repr::heap_buffer::Header")
    capidx = None
    if hadt:
        for i, f in enumerate(hadt["variants"][0]["fields"]):
            if f["name"] == "capacity" or f["ty"].endswith("::Capacity"):
                capidx = i
    if hb and capidx is not None:
        d = describe(hb, hb.origin_local(0))
        want = CAP + "as_usize(HDR(p1).%d)" % capidx
        ctx.ob(rule, hb.path, "reads-header.capacity", d == want, how="capacity() = header().capacity.as_usize()", detail="HeapBuffer::capacity returns %s" % d)
    au = F.bodies.get(CAP + "as_usize")
    if au:
        d = describe(au, au.origin_local(0))
        ctx.ob(rule, au.path, "identity", d == "p1.0", how="Capacity::as_usize returns the stored word", detail="Capacity::as_usize returns %s" % d)
    # Repr::capacity and Repr::as_slice_mut agree arm by arm
    M = F.const_scalar("repr::MAX_INLINE_SIZE")
    rc = F.bodies.get("repr::Repr::capacity")
    sm = F.bodies.get("repr::Repr::as_slice_mut")
    ctx.need(rule, "repr::Repr::capacity", "anchor", rc is not None and sm is not None, "Repr::capacity / as_slice_mut not found")
    if rc and sm:
        from typestate import Solver, T
        S = Solver(F)
        defs = sorted(describe(rc, ("call", bb) if si == "term" else rc.origin_rvalue(x)) for (bb, si, x) in rc.defs.get(0, []))
        want_defs = sorted(["const:repr::MAX_INLINE_SIZE", HB + "capacity(p1)", "repr::static_buffer::StaticBuffer::len(p1)"])
        ctx.ob(rule, rc.path, "results", defs == want_defs, how="capacity() returns HeapBuffer::capacity / borrowed length / MAX_INLINE_SIZE", detail="capacity() can return %s (the write path uses MAX_INLINE_SIZE = %s bytes inline and HeapBuffer::capacity on the heap)" % (defs, M))
        exp = {"H": (HB + "capacity", "repr::static_buffer::StaticBuffer::len"), "S": ("repr::static_buffer::StaticBuffer::len", HB + "capacity"), "I": (None, None)}
        for k in ("I", "S", "H"):
            t0 = T(kind=k, uniq=False, ref="own", acq=False, inc=0, asg=False, dirty=False, ret=None, facts=frozenset())
            res, ev = S.walk(rc, ("param", 1), t0)
            called = {c for (f2, site, c, key, desc, line, kk, crate) in ev}
            must, mustnot = exp[k]
            if k == "I":
                ok = HB + "capacity" not in called and "repr::static_buffer::StaticBuffer::len" not in called
            else:
                ok = must in called and mustnot not in called
            ctx.ob(rule, rc.path, "arm[%s]" % k, ok, how="for kind=%s capacity() takes the %s arm" % (k, {"H": "HeapBuffer::capacity", "S": "borrowed-length", "I": "MAX_INLINE_SIZE"}[k]),
                   detail="capacity() for a %s string calls %s" % (k, sorted(c for c in called if "capacity" in c or "::len" in c)))
        # as_slice_mut: the slice length operand per arm
        for bb, t in sm.calls():
            if callee_name(t).startswith("core::slice::raw::from_raw_parts_mut"):
                ln = strip_refs(sm.origin_operand(t["args"][1]))
                ds = sorted(describe(sm, x) for x in _phi_leaves(sm, ln))
                want = sorted([HB + "capacity(p1)", "const:repr::MAX_INLINE_SIZE"])
                ctx.ob(rule, sm.path, "slice-len", ds == want, how="mutable slice length = capacity() arm by arm", detail="as_slice_mut slice length is %s, capacity() reports %s" % (ds, want))
        lay = F.layouts.get("repr::inline_buffer::InlineBuffer")
        ctx.ob(rule, "repr::inline_buffer::InlineBuffer", "array-len", lay and lay["size"] == M and F.layouts["repr::Repr"]["size"] == M, how="InlineBuffer / Repr are MAX_INLINE_SIZE = %s bytes" % M,
               detail="InlineBuffer size %s != MAX_INLINE_SIZE %s" % (lay and lay["size"], M))


def _phi_leaves(body, e):
    e = strip_refs(e)
    if e[0] == "phi":
        out = []
        for x in e[1]:
            out += _phi_leaves(body, x)
        return out
    if e[0] == "field" and e[1][0] in ("phi", "mem", "local"):
        # tuple (ptr, cap) built per arm
        src = e[1]
        out = []
        if src[0] == "phi":
            for x in src[1]:
                if x[0] == "agg":
                    out += _phi_leaves(body, x[3][e[2]])
                else:
                    out.append(("field", x, e[2]))
            return out
        ds = body.defs.get(src[1], [])
        for d in ds:
            if d[1] != "term" and d[2]["k"] == "aggregate":
                out += _phi_leaves(body, body.origin_operand(d[2]["fields"][e[2]]))
        return out or [e]
    return [e]


def _ret_arms(body):
    """definitions of the return place with the guards dominating each"""
    out = []
    for (bb, si, x) in body.defs.get(0, []):
        e = ("call", bb) if si == "term" else body.origin_rvalue(x)
        out.append((describe(body, e), guards_at(body, bb)))
    return out


def _under(gs, pred, val):
    return any(g[0] == "pred" and g[1] == pred and g[3] is val for g in gs)


def rule_reserve_post(ctx, rule="C11-reserve"):
    """reserve: Ok => Modifiable (computed summary); fast path allocates nothing and moves nothing"""
    from typestate import Solver, T
    F, cg = ctx.F, ctx.cg
    b = F.bodies.get("repr::Repr::reserve")
    ctx.need(rule, "repr::Repr::reserve", "anchor", b is not None, "Repr::reserve not found")
    if not b:
        return
    S = Solver(F)
    for k in ("I", "S", "H"):
        t0 = T(kind=k, uniq=False, ref="own", acq=False, inc=0, asg=False, dirty=False, ret=None, facts=frozenset())
        res, ev = S.walk(b, ("param", 1), t0)
        oks = [t for c, t in res if c == "Ok"]
        bad = [t for t in oks if t.kind == "S" or (t.kind == "H" and not t.uniq) or t.ref != "own"]
        ctx.ob(rule, b.path, "Ok=>exclusive[%s]" % k, bool(oks) and not bad, how="%d Ok exit states from kind=%s, all own their storage exclusively" % (len(oks), k),
               detail="reserve can return Ok in state %s" % [(t.kind, t.uniq, t.ref) for t in bad[:3]])
    # fast paths: blocks (in reserve or in helpers it is split into) that return Ok without growing
    # (a) unique heap with capacity >= needed  (b) inline with needed <= MAX
    M = F.const_scalar("repr::MAX_INLINE_SIZE")
    NEED = "checked_add(repr::Repr::len(p1), p2)"
    found_a = found_b = False
    from r_reach import nonheap_reached, site_name
    for hb, sub in inlined_bodies(b):
        for bb in range(hb.n):
            gs = described_guards(hb, bb, sub)
            cap_ok = any(g[0] == "cmp2" and ((g[1] == "Ge" and "HeapBuffer::capacity(" in g[2] and NEED in g[3]) or (g[1] == "Le" and "HeapBuffer::capacity(" in g[3] and NEED in g[2])) for g in gs)
            inl_ok = any(g[0] == "cmp" and g[3] == M and g[2] is None and NEED in g[1] for g in gs) and not any(g[0] == "pred" and g[1] in ("repr::Repr::is_heap_buffer", "repr::Repr::is_static_buffer") and g[3] is True for g in gs)
            if not (cap_ok or inl_ok):
                continue
            reach = hb.reachable(bb, unwind=False)
            bad = []
            for x in reach:
                if not hb.dominates(bb, x):
                    continue
                tx = hb.term(x)
                if tx["k"] == "call":
                    k = tx.get("local_key")
                    if (k and cg.may_allocate(k)) or callee_name(tx) in ALLOC_SITES:
                        bad.append(callee_name(tx))
                for st in hb.blocks[x]["stmts"]:
                    if st["k"] == "assign" and st["lhs"]["p"] == ["deref"] and st["lhs"]["l"] == 1:
                        bad.append("*self = ..")
            if cap_ok:
                found_a = True
                ctx.ob(rule, b.path, "fast-path:unique-heap-within-capacity", not bad, how="no allocation / reassignment once capacity >= len+additional is established", detail="within-capacity path of reserve still does %s" % bad)
            if inl_ok and not bad:
                found_b = True
    ctx.need(rule, b.path, "fast-path-a", found_a, "no block of reserve is guarded by `capacity >= len + additional` (the no-reallocation promise has no code path)")
    ctx.need(rule, b.path, "fast-path-b", found_b, "no allocation-free block of reserve is guarded by inline `len + additional <= MAX_INLINE_SIZE`", how="inline within the limit: a block with no allocation and no reassignment")
    # Ok => capacity >= len + additional, as a must-pass-through rule: every path from the entry to a
    # block that builds Ok(()) crosses an edge that establishes the room (capacity >= needed on a
    # heap buffer; needed <= MAX_INLINE_SIZE on a buffer that is not on the heap) or a call that
    # makes it (realloc / with_additional / a conversion, whose amounts have their own rules)
    from guards import edge_fact
    for hb, sub in inlined_bodies(b):
        oks = [bb for bb, blk in enumerate(hb.blocks) for st in blk["stmts"]
               if st["k"] == "assign" and st["rv"]["k"] == "aggregate" and st["rv"].get("adt") == "core::result::Result" and st["rv"].get("variant_name") == "Ok"]
        if not oks:
            continue

        def makes_room(t):
            k = t.get("local_key")
            return (k and cg.may_allocate(k)) or callee_name(t) in ALLOC_SITES or callee_name(t) == "repr::inline_buffer::InlineBuffer::new"

        def sufficient(sb, lab):
            f = edge_fact(hb, sb, lab)
            if not f:
                return False
            if f[0] == "cmp2":
                x, y = describe(hb, f[2], 0, sub), describe(hb, f[3], 0, sub)
                return (f[1] == "Ge" and "HeapBuffer::capacity(" in x and NEED in y) or (f[1] == "Le" and "HeapBuffer::capacity(" in y and NEED in x)
            if f[0] == "cmp" and (f[2], f[3]) == (0, 0) and describe(hb, f[1], 0, sub) == "p2":
                return True      # additional == 0: every buffer holds its own text
            if f[0] == "cmp" and f[2] is None and f[3] is not None and f[3] <= M and NEED in describe(hb, f[1], 0, sub):
                # the inline capacity is only what a buffer that is NOT on the heap has
                gs = described_guards(hb, sb, sub)
                return not any(g[0] == "pred" and g[1] == "repr::Repr::is_heap_buffer" and g[3] is True for g in gs) and not (hb is not b and any("HeapBuffer" in (hb.local_ty(i) or "") for i in range(1, hb.arg_count + 1)))
            return False
        seen, work, par = {0}, [0], {}
        while work:
            x = work.pop()
            t = hb.term(x)
            if t["k"] == "call" and makes_room(t):
                continue
            for (y, lab) in hb.succ(x, unwind=False):
                if isinstance(lab, tuple) and sufficient(x, lab[1]):
                    continue
                if y not in seen:
                    seen.add(y)
                    par[y] = x
                    work.append(y)
        for bb in oks:
            path = []
            if bb in seen:
                x = bb
                while x in par and len(path) < 40:
                    x = par[x]
                    if hb.term(x)["k"] == "switch":
                        path.append("bb%d(line %s)" % (x, hb.term(x).get("line")))
            ctx.ob(rule, b.path, "Ok=>room:%s" % (hb.path.rsplit("::", 1)[-1]), bb not in seen, line=hb.line(bb), how="every path to Ok(()) crosses `capacity >= needed`, inline `needed <= %d`, or a call that makes the room" % M,
                   detail="reserve can return Ok(()) along a path that neither establishes capacity >= len + additional nor grows the buffer (branches taken: %s): the caller then writes len + additional bytes into a smaller block" % " <- ".join(path[:6]))
    # inline results (capacity MAX_INLINE_SIZE) are produced only when len + additional fits
    for st in inlined_sites(b, lambda nm: nm == "repr::inline_buffer::InlineBuffer::new"):
        ok = any(g[0] == "cmp" and g[3] == M and g[2] is None and NEED in g[1] for g in st.guards())
        ctx.ob(rule, b.path, "inline-only-if-needed-fits", ok, line=st.line, how="conversion to inline storage behind len + additional <= %d" % M,
               detail="reserve converts to the %d-byte inline buffer without `len + additional <= %d` having been established: it returns Ok with capacity() < len() + additional" % (M, M))
    # realloc only behind capacity < needed, to the growth rule's value
    for st in inlined_sites(b, lambda nm: nm == HB + "realloc"):
        ok = any(g[0] == "cmp2" and g[1] in ("Lt", "Gt") and "HeapBuffer::capacity(" in g[2] + g[3] for g in st.guards())
        ctx.ob(rule, b.path, "realloc-only-when-too-small", ok, how="realloc dominated by capacity < needed", detail="reserve reallocates a unique buffer without first testing that its capacity is insufficient (appending within capacity would move the text)")
        cap = st.desc(1)
        ctx.ob(rule, b.path, "realloc-capacity=growth-rule", cap == "repr::heap_buffer::amortized_growth(repr::Repr::len(p1), p2)", how="new capacity = amortized_growth(len, additional) >= len + additional", detail="reserve reallocates to %s" % cap)


def _dir_ok(b, g):
    """cmp2 (op, a, b): capacity >= needed"""
    op, x, y = g[1], describe(b, g[2]), describe(b, g[3])
    if op == "Ge":
        return "HeapBuffer::capacity(" in x and "checked_add" in y
    if op == "Le":
        return "HeapBuffer::capacity(" in y and "checked_add" in x
    return False


def rule_capacity_roots(ctx, rule="CAPROOT"):
    """the capacity a constructor allocates with is the one it was asked for:
    with_capacity(n) -> n, with_exact_capacity(text, n) -> n, new(text) -> len(text)"""
    F = ctx.F
    want = {
        HB + "with_capacity": ("ok(%snew(p1))" % CAP, "the requested capacity"),
        HB + "new": ("ok(%snew(core::str::<impl str>::len(p1)))" % CAP, "len(text)"),
    }
    for fn, (w, what) in want.items():
        b = F.bodies.get(fn)
        ctx.need(rule, fn, "anchor", b is not None, "%s not found" % fn)
        if not b:
            continue
        sites = inlined_sites(b, lambda nm: nm == HB + "allocate_ptr")
        ctx.ob(rule, fn, "one-allocate_ptr", len(sites) == 1, how="one allocate_ptr call", detail="%d allocate_ptr calls" % len(sites))
        for st in sites:
            d = st.desc(0)
            ctx.ob(rule, fn, "capacity-root", d == w, how="allocates exactly %s" % what, detail="%s allocates capacity %s instead of %s: the reported capacity is not the one asked for" % (fn, d, what))
    b = F.bodies.get(HB + "with_exact_capacity")
    if b:
        sites = [(bb, t) for bb, t in b.calls() if callee_name(t) in (HB + "with_capacity", HB + "allocate_ptr")]
        for bb, t in sites:
            d = describe(b, b.origin_operand(t["args"][0]))
            ctx.ob(rule, b.path, "capacity-root", d in ("p2", "ok(%snew(p2))" % CAP), how="allocates exactly the requested capacity", detail="with_exact_capacity allocates %s" % d)
        ctx.need(rule, b.path, "allocates", len(sites) == 1, "with_exact_capacity has %d allocation calls" % len(sites))


def rule_size_hint_use(ctx, rule="C11-hint"):
    """pre-reservation from an iterator uses the *lower* bound of size_hint (the upper bound only
    limits how many items may come: reserving it allocates for appends that fit the capacity)"""
    F = ctx.F
    n = 0
    RES = ("LeanString::try_reserve", "LeanString::reserve", "LeanString::try_with_capacity", "LeanString::with_capacity", "repr::Repr::with_capacity", "repr::Repr::reserve")
    for path, b in F.bodies.items():
        if not any(callee_name(t).endswith("::size_hint") for _, t in b.calls()):
            continue
        for bb, t in b.calls():
            if callee_name(t) in RES:
                a = describe(b, b.origin_operand(t["args"][-1]))
                if "size_hint(" not in a:
                    continue
                n += 1
                ok = re.match(r"^core::iter::traits::iterator::Iterator::size_hint\(.*\)\.0$", a) is not None
                ctx.ob(rule, path, "reserves-lower-bound:" + callee_name(t).rsplit("::", 1)[1], ok, line=t.get("line", 0), how="reserves size_hint().0",
                       detail="%s pre-reserves %s: not the lower bound of the size hint" % (path, a))
                # ... and only where one item is at least one byte: chars.  The number of &str / String /
                # LeanString pieces says nothing about their bytes (sixty empty pieces are no bytes)
                mi = re.search(r"collect::(?:Extend|FromIterator)<(.*)>>::", path)
                item = mi.group(1) if mi else None
                if item is not None:
                    ctx.ob(rule, path, "hint-counts-bytes:" + callee_name(t).rsplit("::", 1)[1], re.match(r"^&?('\w+ )?char$", item) is not None, line=t.get("line", 0), how="items are chars (>= 1 byte each)",
                           detail="%s pre-reserves the number of items of an iterator over %s as if it were a number of bytes: empty pieces make it an over-reservation (a short text spills to the heap, a buffer grows beyond the rule)" % (path, item))
    ctx.need(rule, "crate", "sites", n >= 1, "only %d size_hint-driven reservations found" % n, how="%d size_hint-driven reservations" % n)


def rule_slot_decision(ctx, rule="LAYOUT"):
    """32-bit only: a block whose capacity exceeds MAX_LEN is allocated with one extra word in front
    of the header (the on-heap length slot) - allocate_ptr and realloc decide that on the CAPACITY.
    The pointer handed back to the allocator (realloc / dealloc) must be computed with the same
    decision: the arm that steps back over the slot is guarded by is_len_heap_layout(header.capacity),
    not by where the current length happens to be stored (a buffer reserved past MAX_LEN that holds a
    short text has the slot but an in-handle length)."""
    F = ctx.F
    if F.ptr_bits != 32:
        return
    n = 0
    for path in (HB + "dealloc", HB + "realloc"):
        root = F.bodies.get(path)
        if not root:
            continue
        for st in inlined_sites(root, lambda nm: nm in ("alloc::alloc::dealloc", "alloc::alloc::realloc")):
            fb = st.body
            a0 = strip_refs(fb.origin_operand(st.t["args"][0]))
            while a0[0] == "cast":
                a0 = strip_refs(a0[2])
            arms = []
            if a0[0] == "call" and fb.term(a0[1]).get("local_key") in F.bodies:
                pb = F.bodies[fb.term(a0[1])["local_key"]]
                sub = {i + 1: describe(fb, fb.origin_operand(a), 0, st.subst[-1]) for i, a in enumerate(fb.term(a0[1])["args"])}
                from guards import dominating_edges
                for (bb, si, x) in pb.defs.get(0, []):
                    e = ("call", bb) if si == "term" else pb.origin_rvalue(x)
                    gs_ = described_guards(pb, bb, sub)
                    for sb, lab in dominating_edges(pb, bb):
                        # `if len_on_heap {` on a bool parameter: the flag is what the caller passed
                        de = strip_refs(pb.origin_operand(pb.term(sb)["discr"]))
                        if pb.term(sb).get("discr_ty") == "bool" and de[0] == "param" and de[1] in sub:
                            gs_.append(("flag", sub[de[1]], (lab == "otherwise" or lab == 1)))
                    arms.append((describe(pb, e, 0, sub), gs_))
            elif a0[0] in ("mem", "local", "phi"):
                for (bb, si, x) in fb.defs.get(a0[1], []) if a0[0] != "phi" else []:
                    e = ("call", bb) if si == "term" else fb.origin_rvalue(x)
                    arms.append((describe(fb, e, 0, st.subst[-1]), described_guards(fb, bb, st.subst[-1])))
            slot = [(d, gs) for d, gs in arms if d.count("::sub(") >= 2 and ("size_of::<usize>()" in d or "const:%d" % F.ptr_bytes in d)]
            if not slot:
                continue
            n += 1
            for d, gs in slot:
                # a predicate of the header's capacity (whatever it is called: is_len_heap_layout(cap),
                # cap.has_len_slot() ...), possibly computed by the caller and passed in as a flag
                bycap = any(g[0] == "pred" and g[3] is True and g[2] is not None and re.match(r"^HDR\(p1\)\.\d$", g[2]) for g in gs) or \
                        any(g[0] == "flag" and g[2] is True and re.search(r"\(HDR\(p1\)\.\d\)$", g[1]) and "TextLen" not in g[1] for g in gs) or \
                        any(g[0] == "cmp" and g[2] is not None and g[3] is None and re.search(r"HDR\(p1\)\.\d", g[1]) for g in gs)   # capacity > MAX_LEN spelled out
                bylen = [g for g in gs if (g[0] == "pred" and g[1].endswith("TextLen::is_heap")) or (g[0] == "flag" and "TextLen::is_heap" in g[1])]
                ctx.ob(rule, path, "slot-decided-on-capacity:" + st.name.rsplit("::", 1)[-1], bycap, line=st.line, how="the allocation start steps back over the length slot exactly when is_len_heap_layout(header.capacity)",
                       detail="the pointer given to %s steps back over the on-heap length slot %s, while allocate_ptr / realloc create the slot when is_len_heap_layout(capacity): after with_capacity(n) or reserve(n) past MAX_LEN with a short text the slot exists but the pointer is computed without it (freed / reallocated with an address 4 bytes inside the block)" % (st.name, "when the current length is stored on the heap (TextLen::is_heap)" if bylen else "under %s" % [g[:2] for g in gs]))
    ctx.need(rule, HB + "dealloc", "slot-arm", n >= 1, "no allocation-start computation with a length-slot arm found on this 32-bit target", how="%d allocator sites with a slot arm" % n)


def _usize_write_call(t):
    nme = callee_name(t)
    leaf = nme.rsplit("::", 1)[-1]
    if not (nme.startswith("core::ptr::") and leaf in ("write", "write_unaligned", "write_volatile")):
        return False
    ga = (t.get("generic_args") or [""])[0].strip()
    pt = [a for a in t.get("arg_tys", []) if a.startswith("*mut ") or "NonNull<" in a]
    return ga == "usize" or any(a.strip() in ("*mut usize", "core::ptr::NonNull<usize>", "core::ptr::non_null::NonNull<usize>") for a in pt)


def _slot_write_blocks(F, b, depth=3, skip=()):
    """blocks of b that store a usize through a raw pointer: a ptr::write / NonNull::write of a usize,
    a `*p = n` through a `*mut usize`, or a call of a private function that does"""
    out = {}
    for bb, t in b.calls():
        if _usize_write_call(t):
            out[bb] = describe(b, b.origin_operand(t["args"][1])) if len(t["args"]) == 2 else None
        else:
            k = t.get("local_key")
            if k and depth > 0 and k in F.bodies and k != b.path and k not in skip and not k.endswith("::set_len"):
                if _slot_write_blocks(F, F.bodies[k], depth - 1, skip + (b.path,)):
                    out[bb] = None
    for bb, blk in enumerate(b.blocks):
        for st in blk["stmts"]:
            if st["k"] == "assign" and st["lhs"]["p"] and st["lhs"]["p"][-1] == "deref" and (st.get("lhs_ty") or "").strip() == "usize" and (b.local_ty(st["lhs"]["l"]) or "").startswith("*mut"):
                out[bb] = describe(b, b.origin_rvalue(st["rv"]))
    return out


def rule_len_slot(ctx, rule="LENSLOT"):
    """32-bit only.  (a) `is_len_heap_layout(capacity)` is true for every capacity above MAX_LEN - the
    capacities whose text can reach the length TextLen::new answers with the ON_THE_HEAP sentinel for
    (evaluated at the boundary values; the predicate is a comparison of the capacity with constants).
    (b) whoever builds a HeapBuffer from a `TextLen::new(n)` that may be the sentinel stores n in the
    slot: every path to the `HeapBuffer { ptr, len }` aggregate passes a `ptr::write::<usize>(.., n)`
    or leaves an `is_heap()` test on its false edge."""
    F = ctx.F
    if F.ptr_bits != 32:
        return
    from r_text import _ceval, _U
    from guards import reach_cut, edge_fact
    mx = F.const_scalar("repr::heap_buffer::internal::MAX_LEN")
    pb = F.bodies.get("repr::heap_buffer::internal::is_len_heap_layout")
    if pb is None or mx is None:
        ctx.notes.append("LENSLOT: no `is_len_heap_layout` predicate / MAX_LEN constant on this tree: the 'slot for every capacity above MAX_LEN' clause is not decided (the LAYOUT rules compare the allocation sizes)")
    if pb is not None and mx is not None:
        ds = pb.defs.get(0, [])
        bad = []
        pts = sorted({0, 1, mx - 1, mx, mx + 1, mx + 2, 1 << 31, (1 << 32) - 1})
        if len(ds) == 1:
            r = ("call", ds[0][0]) if ds[0][1] == "term" else pb.origin_rvalue(ds[0][2])
            for v in pts:
                got = None
                for key in ("repr::heap_buffer::internal::Capacity::as_usize(p1)", "p1.0", "p1"):
                    got = _ceval(pb, r, None, F, 0, None, {key: v})
                    if isinstance(got, int) and not isinstance(got, _U):
                        break
                if not isinstance(got, int) or isinstance(got, _U):
                    bad.append((v, "not evaluated"))
                elif v > mx and not got:
                    bad.append((v, "false"))
        else:
            bad.append(("-", "%d return definitions" % len(ds)))
        ctx.ob(rule, pb.path, "slot-for-every-capacity-above-MAX_LEN", not bad, how="true at MAX_LEN+1, MAX_LEN+2, 2^31, 2^32-1 (MAX_LEN = %#x)" % mx,
               detail="is_len_heap_layout(%s) is %s: a text of that length gets the ON_THE_HEAP sentinel from TextLen::new, but the block has no slot for its length (the word in front of the block is used instead)" % ((("%#x" % bad[0][0]) if bad and isinstance(bad[0][0], int) else "-"), bad[0][1] if bad else "-"))
    n = 0
    for path, b in F.bodies.items():
        for bb, blk in enumerate(b.blocks):
            for st in blk["stmts"]:
                if not (st["k"] == "assign" and st["rv"]["k"] == "aggregate" and st["rv"].get("adt") == "repr::heap_buffer::HeapBuffer"):
                    continue
                lens = []
                for f in st["rv"]["fields"]:
                    d = describe(b, b.origin_operand(f))
                    m = re.search(r"repr::heap_buffer::internal::TextLen::new\((.*?)\)\)?$", d)
                    if m:
                        lens.append(m.group(1))
                if not lens or lens[0].startswith("const:"):
                    continue
                n += 1
                want = lens[0]
                writes = {wb for wb, v in _slot_write_blocks(F, b).items() if v is None or v == want}
                for wb, t in b.calls():
                    if callee_name(t) == "repr::heap_buffer::HeapBuffer::set_len":
                        writes.add(wb)

                def cut(sb, lab):
                    f = edge_fact(b, sb, lab)
                    return bool(f) and f[0] == "pred" and f[1].endswith("TextLen::is_heap") and f[3] is False
                seen = reach_cut(b, 0, lambda q: q in writes, cut)
                ctx.ob(rule, path, "sentinel=>slot-written", bb not in seen or bb in writes, line=st.get("line"), how="the slot is written with %s on every path on which the length may be the sentinel" % want,
                       detail="%s builds a HeapBuffer whose length word comes from TextLen::new(%s) - the ON_THE_HEAP sentinel above MAX_LEN - on a path that never stores the length in the slot in front of the header: len() then reads an unwritten word" % (path, want))
    ctx.need(rule, "crate", "constructors", n >= 1, "only %d HeapBuffer constructions from TextLen::new(n)" % n, how="%d constructions" % n)
    # (c) set_len: after the new length word is stored, the slot is written whenever THAT word is the
    # sentinel - the test is made on the new word (evaluated after the store), not on the old one
    sl = F.bodies.get(HB + "set_len")
    ctx.need(rule, HB + "set_len", "anchor", sl is not None, "HeapBuffer::set_len not found")
    if sl is not None:
        stores = [bb for bb, blk in enumerate(sl.blocks) for st in blk["stmts"]
                  if st["k"] == "assign" and st["lhs"]["l"] == 1 and st["lhs"]["p"] and st["lhs"]["p"][0] == "deref" and "TextLen" in (st.get("lhs_ty") or "")]
        writes = set(_slot_write_blocks(F, sl))
        ctx.need(rule, sl.path, "length-word-store", len(stores) >= 1 and len(writes) >= 1, "set_len has %d stores of the length word and %d slot writes" % (len(stores), len(writes)), how="%d store(s), %d slot write(s)" % (len(stores), len(writes)))
        for S in stores:
            def cut(sb, lab, S=S):
                f = edge_fact(sl, sb, lab)
                if not (f and f[0] == "pred" and (f[1].endswith("TextLen::is_heap") or f[1].endswith("is_len_on_heap")) and f[3] is False):
                    return False
                d = strip_refs(sl.origin_operand(sl.term(sb)["discr"]))
                return d[0] == "call" and sl.dominates(S, d[1])
            seen = set()
            for y, lab in sl.succ(S, unwind=False):
                seen |= reach_cut(sl, y, lambda q: q in writes, cut)
            bad = [q for q in seen if sl.term(q)["k"] == "return" and q not in writes]
            ctx.ob(rule, sl.path, "new-word-sentinel=>slot-written", not bad and S not in writes, line=sl.line(S), how="after the store, every path writes the slot or leaves an is_heap() test of the NEW word on its false edge",
                   detail="set_len can return after storing the new length word without writing the slot, although that word may be the sentinel (the test is made before the store, on the old word): a length crossing MAX_LEN reads back stale")


def rule_realloc_same_kind(ctx, rule="LAYOUT"):
    """32-bit only: the block is resized in place (alloc::realloc) only when the old and the new
    capacity ask for the same layout - both with the length slot or both without.  A capacity that
    crosses MAX_LEN needs a fresh block (the header records only the capacity, and dealloc / the next
    realloc re-derive the slot from it).  Decided by cases: for each of the four answers the two
    layout predicates (any private bool function of one Capacity: of the header's, of the requested
    one) can give, the branch conditions built from them (tuple matches, ==, !=, !, &, |, flags) are
    evaluated and the allocator's realloc must be unreachable when the answers differ."""
    F = ctx.F
    if F.ptr_bits != 32:
        return
    b = F.bodies.get(HB + "realloc")
    if b is None:
        return
    sites = [bb for bb, t in b.calls() if callee_name(t) == "alloc::alloc::realloc"]
    if not sites:
        return

    def classify(e, projected=False):
        # a bool handed back inside a larger result (`layout_from_capacity(cap)? -> (Layout, bool)`)
        peeled = False
        for _ in range(8):
            e = strip_refs(e)
            if e[0] in ("field", "downcast"):
                e, peeled = e[1], True
            elif e[0] == "call" and (callee_name(b.term(e[1])).endswith("::branch") or callee_name(b.term(e[1])).rsplit("::", 1)[-1] in ("unwrap", "unwrap_unchecked", "expect")) and b.term(e[1])["args"]:
                e, peeled = b.origin_operand(b.term(e[1])["args"][0]), True
            elif e[0] in ("mem", "local") and len(b.defs.get(e[1], [])) == 1 and peeled:
                d0 = b.defs[e[1]][0]
                e = ("call", d0[0]) if d0[1] == "term" else b.origin_rvalue(d0[2])
            else:
                break
        if e[0] != "call":
            return None
        t = b.term(e[1])
        k = t.get("local_key")
        rty = (b.local_ty(t["dest"]["l"]) or "").strip()
        two = peeled or rty == "bool" or (rty in F.adts and len(F.adts[rty]["variants"]) == 2 and not any(v["fields"] for v in F.adts[rty]["variants"]))
        if not k or len(t["args"]) != 1 or not two or "Capacity" not in (t.get("arg_tys") or [""])[0]:
            return None      # (a bool, or a private two-variant enum such as LenSlot::{InHandle, OnHeap})
        d = describe(b, b.origin_operand(t["args"][0]))
        if re.search(r"\bp2\b", d):
            return "new"
        if "HDR(p1)" in d or "header(" in d:
            return "cur"
        return None

    def beval(e, env, depth=0):
        e = strip_refs(e)
        if depth > 12:
            return None
        k = e[0]
        if k == "const":
            return bool(e[2]) if isinstance(e[2], int) else None
        if k == "discr":
            return beval(e[1], env, depth + 1)
        if k == "call":
            c = classify(e)
            return env[c] if c else None
        if k == "un" and e[1] == "Not":
            v = beval(e[2], env, depth + 1)
            return None if v is None else (not v)
        if k == "bin" and e[1] in ("Eq", "Ne", "BitAnd", "BitOr", "BitXor"):
            x, y = beval(e[2], env, depth + 1), beval(e[3], env, depth + 1)
            if e[1] == "BitAnd" and (x is False or y is False):
                return False
            if e[1] == "BitOr" and (x is True or y is True):
                return True
            if x is None or y is None:
                return None
            return {"Eq": x == y, "Ne": x != y, "BitAnd": x and y, "BitOr": x or y, "BitXor": x != y}[e[1]]
        if k == "field" and strip_refs(e[1])[0] == "agg" and isinstance(e[2], int) and e[2] < len(strip_refs(e[1])[3]):
            return beval(strip_refs(e[1])[3][e[2]], env, depth + 1)
        if k == "field" and (len(e) < 4 or (e[3] or "").strip() == "bool"):
            c = classify(e)
            if c:
                return env[c]
        if k in ("mem", "local"):
            if e[1] in env.get("known", {}):
                return env["known"][e[1]]
            ds = b.defs.get(e[1], [])
            if len(ds) == 1:
                return beval(("call", ds[0][0]) if ds[0][1] == "term" else b.origin_rvalue(ds[0][2]), env, depth + 1)
        if k == "phi" and env.get("known_phi") is not None:
            return env["known_phi"]
        return None
    asked = set()
    for bb, t in b.calls():
        if t.get("local_key") and len(t["args"]) == 1 and "Capacity" in (t.get("arg_tys") or [""])[0] and not callee_name(t).endswith("::as_usize"):
            d = describe(b, b.origin_operand(t["args"][0]))
            asked.add("new" if re.search(r"\bp2\b", d) else ("cur" if ("HDR(p1)" in d or "header(" in d) else "?"))
    asked.discard("?")
    bad = None
    for A in (False, True):
        for B in (False, True):
            if A == B:
                continue
            # (bool temporaries assigned constants on the way - `matches!(..)` - are tracked per path)
            start = (0, ())
            seen, work = {start}, [start]
            while work:
                x, kn = work.pop()
                if x in sites:
                    bad = (A, B)
                    break
                known = dict(kn)
                env = {"cur": A, "new": B, "known": known}
                for st in b.blocks[x]["stmts"]:
                    if st["k"] == "assign" and not st["lhs"]["p"] and (b.local_ty(st["lhs"]["l"]) or "") == "bool":
                        rv = st["rv"]
                        v = None
                        if rv["k"] == "use" and "c" in rv["a"] and "scalar" in rv["a"]["c"]:
                            v = bool(rv["a"]["c"]["scalar"])
                        else:
                            try:
                                v = beval(b.origin_rvalue(rv), env)
                            except Exception:
                                v = None
                        if v is None:
                            known.pop(st["lhs"]["l"], None)
                        else:
                            known[st["lhs"]["l"]] = v
                t = b.term(x)
                only = None
                if t["k"] == "switch":
                    d = t["discr"]
                    pl = d.get("mv") or d.get("cp")
                    v = None
                    if pl and not pl["p"] and pl["l"] in known:
                        v = known[pl["l"]]
                    if v is None:
                        v = beval(b.origin_operand(d), env)
                    if v is not None:
                        only = next((tb for av, tb in t["arms"] if av == int(v)), t["otherwise"])
                for y, lab in b.succ(x, unwind=False):
                    if only is not None and y != only:
                        continue
                    stt = (y, tuple(sorted(known.items())))
                    if stt not in seen:
                        seen.add(stt)
                        work.append(stt)
            if bad:
                break
        if bad:
            break
    name = lambda v: "with the slot" if v else "without the slot"
    ok = bad is None and asked == {"cur", "new"}
    why = ("the block is resized in place on a path where the old capacity's layout is %s and the new capacity's is %s" % (name(bad[0]), name(bad[1]))) if bad else \
          ("realloc asks the layout predicate only of %s" % (sorted(asked) or "nothing"))
    ctx.ob(rule, b.path, "in-place-only-within-one-layout-kind", ok, line=b.line(sites[0]), how="alloc::realloc unreachable when the layout predicate answers differently for the old and the new capacity (4 cases evaluated)",
           detail=why + ": the header then records a capacity whose layout differs from the block's, and dealloc / the next realloc compute the block's start and size from the capacity")
