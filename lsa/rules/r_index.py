"""C07: index validation dominates every effect; the checks are String's predicates."""
import re
from facts import callee_name, strip_refs, expn_has
from guards import guards_at, describe, anchors

PANICS = ("core::panicking::panic", "core::panicking::panic_fmt", "core::panicking::panic_display", "core::panicking::panic_explicit",
          "core::panicking::assert_failed", "core::panicking::panic_str_2015", "core::panicking::unreachable_display")

TARGETS = {
    # fn -> (index parameter position (1-based local), needs `idx < len`)
    "repr::Repr::remove": (2, True),
    "repr::Repr::insert_str": (2, False),
    "repr::Repr::truncate": (2, False),
}


def effect_blocks(body):
    """blocks whose terminator/statements have an effect on the receiver: a local call taking
    `&mut` of the handle, or a store through it"""
    out = []
    for bb, t in body.calls():
        if t.get("local_key") and any(a.startswith("&mut repr::") or a.startswith("&mut LeanString") for a in t.get("arg_tys", [])):
            out.append((bb, callee_name(t)))
    for bb, blk in enumerate(body.blocks):
        for s in blk["stmts"]:
            if s["k"] == "assign" and s["lhs"]["p"] and s["lhs"]["p"][0] == "deref" and s["lhs"]["l"] == 1:
                out.append((bb, "store through self"))
    return out


def explicit_panics(body, _depth=0, idx_param=None):
    out = []
    dbg = body.debug_only_blocks()
    for bb, t in body.calls():
        n = callee_name(t)
        if n in PANICS or n.startswith("core::panicking::assert_failed"):
            if bb in dbg:
                continue
            from implied import infeasible
            if infeasible(body, bb):
                continue      # a defensive assertion implied by the checks that dominate it: no failing edge
            out.append(bb)
        elif t.get("local_key") and bb not in dbg and _depth < 3 and (t.get("target") is None or (t["local_key"] not in anchors(body.facts) and body.facts.bodies.get(t["local_key"]) is not None and body.facts.bodies[t["local_key"]].j["kind"] != "closure"
                                                                                                     and (_depth > 0 or idx_param is None or any(strip_refs(body.origin_operand(a)) == ("param", idx_param) for a in t["args"])))):
            # an out-of-line `-> !` panic, or a private checking helper that is handed the index
            # (a helper that only sees `self` - an invariant checker - does not reject indices)
            # a call to a local `-> !` function (a #[cold] out-of-line panic): an explicit panic here
            hb = body.facts.bodies.get(t["local_key"])
            if hb is not None and explicit_panics(hb, _depth + 1):
                out.append(bb)
    return out


def _boundary_fact_on(b, g, ip):
    """the fact is `as_str(self).is_char_boundary(<index parameter>)` - judged on the fact's own
    operands (the test may sit in a private assertion helper)"""
    args = g[5] if len(g) > 5 else ()
    if len(args) < 2:
        return False
    return describe(b, args[0]) == "repr::Repr::as_str(p1)" and describe(b, args[1]) == "p%d" % ip


def rule_validate_before_mutate(ctx, rule="C07-order"):
    F = ctx.F
    for fn, (ip, need_lt) in TARGETS.items():
        b = F.bodies.get(fn)
        ctx.need(rule, fn, "anchor", b is not None, "%s not found" % fn)
        if b is None:
            continue
        effs = effect_blocks(b)
        ctx.need(rule, fn, "has-effects", bool(effs), "%s has no effect on its receiver (shape changed?)" % fn, how="%d effect site(s)" % len(effs))
        pan = explicit_panics(b, 0, ip)
        ctx.need(rule, fn, "has-index-panic", bool(pan), "%s has no explicit panic for bad indices" % fn, how="%d explicit panic site(s)" % len(pan))
        # (b) no explicit panic reachable after an effect
        for pb in pan:
            after = [name for (eb, name) in effs if pb in b.reachable(eb, unwind=False) and pb != eb]
            ctx.ob(rule, fn, "panic-before-effects:" + _ord(b, pb, pan), not after, line=b.line(pb), how="explicit panic not reachable from any effect",
                   detail="an explicit panic is reachable after %s: a rejected index has already changed the target (unshared / converted / reallocated it)" % sorted(set(after)))
        # (a) every effect is dominated by the passing edges of the index checks
        for eb, name in effs:
            gs = guards_at(b, eb)
            cb = [g for g in gs if g[0] == "pred" and g[1] == "core::str::<impl str>::is_char_boundary" and g[3] is True]
            okb = False
            for g in cb:
                if _boundary_fact_on(b, g, ip):
                    okb = True
            ctx.ob(rule, fn, "boundary-check-dominates:" + _eord(b, eb, effs), okb, line=b.line(eb), how="as_str(self).is_char_boundary(idx) true-edge dominates %s" % name,
                   detail="%s is reachable without the check `self.as_str().is_char_boundary(idx)` having passed" % name)
            if need_lt:
                lt = False
                for g in gs:
                    if g[0] == "cmp2":
                        op, x, y = g[1], strip_refs(g[2]), strip_refs(g[3])
                        dx, dy = describe(b, x), describe(b, y)
                        if op == "Lt" and x == ("param", ip) and dy == "repr::Repr::len(p1)":
                            lt = True
                        if op == "Gt" and y == ("param", ip) and dx == "repr::Repr::len(p1)":
                            lt = True
                ctx.ob(rule, fn, "idx<len-dominates:" + _eord(b, eb, effs), lt, line=b.line(eb), how="idx < len(self) edge dominates %s" % name,
                       detail="%s is reachable without `idx < self.len()` having passed (String::remove panics at idx == len; here the code goes on, unshares, and reads past the text)" % name)
        # (c) the checks are not skippable: every block that builds the Ok result is dominated by the
        # passing edge of the boundary check (String panics for a bad index whatever else is passed,
        # e.g. also when the inserted text is empty) — except truncate's documented no-op new_len >= len
        for bb, blk in enumerate(b.blocks):
            for s in blk["stmts"]:
                if s["k"] == "assign" and s["lhs"]["l"] == 0 and not s["lhs"]["p"] and s["rv"]["k"] == "aggregate" and s["rv"].get("variant_name") == "Ok":
                    gs = guards_at(b, bb)
                    okb = False
                    for g in gs:
                        if g[0] == "pred" and g[1] == "core::str::<impl str>::is_char_boundary" and g[3] is True:
                            if _boundary_fact_on(b, g, ip):
                                okb = True
                    if fn == "repr::Repr::truncate" and not okb:
                        okb = any(g[0] == "cmp2" and ((g[1] == "Ge" and strip_refs(g[2]) == ("param", ip) and describe(b, g[3]) == "repr::Repr::len(p1)") or (g[1] == "Le" and strip_refs(g[3]) == ("param", ip) and describe(b, g[2]) == "repr::Repr::len(p1)")) for g in gs)
                    if fn == "repr::Repr::truncate" and not okb:
                        # ... or len == 0, where every new_len is >= len
                        okb = any((g[0] == "pred" and g[1] in ("repr::Repr::is_empty",) and g[3] is True and describe(b, g[2]) == "p1") or
                                  (g[0] == "cmp" and (g[2], g[3]) == (0, 0) and describe(b, g[1]) == "repr::Repr::len(p1)") for g in gs)
                    ctx.ob(rule, fn, "ok-return-after-check:line-ord%d" % _ok_ord(b, bb), okb, line=s.get("line", 0), how="Ok result only after the index check passed",
                           detail="%s can return Ok without `self.as_str().is_char_boundary(idx)` having been evaluated: an index String rejects (past the end / inside a character) is accepted on that path" % fn)
        if fn == "repr::Repr::truncate":
            for eb, name in effs:
                gs = guards_at(b, eb)
                lt = any(g[0] == "cmp2" and ((g[1] == "Lt" and strip_refs(g[2]) == ("param", ip) and describe(b, g[3]) == "repr::Repr::len(p1)") or (g[1] == "Gt" and strip_refs(g[3]) == ("param", ip) and describe(b, g[2]) == "repr::Repr::len(p1)")) for g in gs)
                ctx.ob(rule, fn, "new_len<len-dominates:" + _eord(b, eb, effs), lt, how="truncation only when new_len < len", detail="truncate reaches %s without `new_len < len`" % name)


def _ok_ord(b, bb):
    n = 0
    for i in range(bb):
        for s in b.blocks[i]["stmts"]:
            if s["k"] == "assign" and s["lhs"]["l"] == 0 and s["rv"]["k"] == "aggregate" and s["rv"].get("variant_name") == "Ok":
                n += 1
    return n


def _ord(b, pb, pan):
    return "#%d" % sorted(pan).index(pb)


def _eord(b, eb, effs):
    names = [n for (_, n) in effs]
    i = [x for x, _ in effs].index(eb)
    n = effs[i][1]
    k = sum(1 for (bb2, n2) in effs[:i] if n2 == n)
    return "%s#%d" % (n, k)


def rule_wrappers(ctx, rule="C07-wrap"):
    """public wrappers reach the three validators without effects of their own"""
    F = ctx.F
    pairs = {
        "LeanString::try_remove": "repr::Repr::remove", "LeanString::try_insert": "repr::Repr::insert_str",
        "LeanString::try_insert_str": "repr::Repr::insert_str", "LeanString::try_truncate": "repr::Repr::truncate",
        "LeanString::remove": "LeanString::try_remove", "LeanString::insert": "LeanString::try_insert",
        "LeanString::insert_str": "LeanString::try_insert_str", "LeanString::truncate": "LeanString::try_truncate",
    }
    for w, tgt in pairs.items():
        b = F.bodies.get(w)
        ctx.need(rule, w, "anchor", b is not None, "%s not found" % w)
        if not b:
            continue
        effs = effect_blocks(b)
        names = [n for _, n in effs]
        # (or the call to a sibling wrapper of the same operation: try_insert -> try_insert_str)
        sib = [w2 for w2, t2 in pairs.items() if t2 == tgt and w2 != w]
        ctx.ob(rule, w, "only-effect-is-delegate", names == [tgt] or (len(names) == 1 and names[0] in sib), how="only effect: %s" % tgt, detail="%s has effects %s (expected only the call to %s)" % (w, names, tgt))
        # the try_ wrappers reject nothing themselves: which index (and which argument) panics is
        # decided by the storage layer's validator alone
        if w.rsplit("::", 1)[-1].startswith("try_"):
            pan = explicit_panics(b, 0, None)
            # (repeating the validator's own test - the index is not a char boundary of the text - rejects
            # nothing the validator accepts)
            def same_rejection(pb):
                for g in guards_at(b, pb):
                    if g[0] == "pred" and g[1] == "core::str::<impl str>::is_char_boundary" and g[3] is False and len(g) > 5 and len(g[5]) == 2:
                        if describe(b, g[5][0]) in ("LeanString::as_str(p1)", "repr::Repr::as_str(p1.0)", "TEXT(p1)") and describe(b, g[5][1]) == "p2":
                            return True
                return False
            pan = [pb for pb in pan if not same_rejection(pb)]
            ctx.ob(rule, w, "no-panic-of-its-own", not pan, line=(b.line(pan[0]) if pan else None), how="no explicit panic in the wrapper",
                   detail="%s panics on a condition of its own (line %s) before / around the call to %s: a call String accepts is rejected" % (w, b.line(pan[0]) if pan else "-", tgt))
        # the index argument is passed through unchanged
        for bb, t in b.calls():
            if callee_name(t) == tgt or callee_name(t) in sib:
                idx = strip_refs(b.origin_operand(t["args"][1]))
                ctx.ob(rule, w, "index-passthrough", idx == ("param", 2), how="index argument forwarded unchanged", detail="%s forwards index %s" % (w, describe(b, idx)))


def rule_unchecked_utf8(ctx, rule="C07-utf8"):
    F = ctx.F
    allowed = {"repr::Repr::as_str", "repr::Repr::as_str_mut", "repr::heap_buffer::HeapBuffer::as_str", "LeanString::from_utf8_unchecked"}
    # functions already audited for taking an unchecked str sub-view (str::get_unchecked) state the
    # same precondition when they spell it from_utf8_unchecked(from_raw_parts(..))
    import r_config
    allowed |= {fn for (fn, fam) in r_config.FAMILY_TABLE if fam == "utf8-view"}
    users = {}
    for path, b in F.bodies.items():
        for bb, t in b.calls():
            n = callee_name(t)
            if n in ("core::str::converts::from_utf8_unchecked", "core::str::converts::from_utf8_unchecked_mut", "core::str::from_utf8_unchecked", "core::str::from_utf8_unchecked_mut",
                     "alloc::string::String::from_utf8_unchecked"):
                users.setdefault(path, []).append(n)
    extra = set(users) - allowed
    ctx.ob(rule, "crate", "from_utf8_unchecked-users", not extra, how="unchecked UTF-8 views only in %s" % sorted(set(users) & allowed), detail="from_utf8_unchecked used outside the audited set: %s" % sorted(extra))
    ctx.need(rule, "crate", "anchor", len(users) >= 3, "fewer unchecked-view sites than audited (%d)" % len(users), how="%d sites" % len(users))
    pub = F.fns.get("LeanString::from_utf8_unchecked")
    ctx.ob(rule, "LeanString::from_utf8_unchecked", "is-unsafe", pub is not None and pub["safety"] == "unsafe", how="public unchecked constructor is an unsafe fn", detail="from_utf8_unchecked is callable from safe code")
    # bytes stored into string storage come from &str-typed sources: the copy sources in the
    # mutators are `string.as_ptr()/as_bytes()` of a &str parameter, or a char's encode_utf8
    for fn in ("repr::Repr::push_str", "repr::Repr::insert_str"):
        b = F.bodies.get(fn)
        if not b:
            continue
        for bb, t in b.calls():
            n = callee_name(t)
            if n in ("core::slice::<impl [T]>::copy_from_slice", "core::ptr::copy_nonoverlapping"):
                si = 1 if "copy_from_slice" in n else 0
                src = describe(b, b.origin_operand(t["args"][si]))
                ok = src in ("core::str::<impl str>::as_bytes(p2)", "core::str::<impl str>::as_ptr(p3)", "core::str::<impl str>::as_ptr(p2)", "core::str::<impl str>::as_bytes(p3)")
                ctx.ob(rule, fn, "copy-source-is-str", ok, how="bytes copied from the &str argument (%s)" % src, detail="%s copies bytes from %s, not from the &str argument" % (fn, src))
