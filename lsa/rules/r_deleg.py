"""R-deleg rules: C17 (comparison / hashing / formatting delegate to str through as_str only),
C19 (serde / arbitrary wrappers), C16 (decoding constructors), C15 (non-numeric dispatch, error
mapping, bool/char constants)."""
import re
from facts import callee_name, strip_refs
from guards import describe, guards_at, eval_int, inlined_calls, find_call

# --- views of the text of an argument (B5 glue), normalised to TEXT(pN)
TEXT_VIEWS = [
    (r"LeanString::as_str\((p\d)\)", r"TEXT(\1)"),
    (r"<LeanString as core::ops::deref::Deref>::deref\((p\d)\)", r"TEXT(\1)"),
    (r"repr::Repr::as_str\((p\d)\.0\)", r"TEXT(\1)"),
    (r"alloc::string::String::as_str\((p\d)\)", r"TEXT(\1)"),
    (r"<alloc::string::String as core::ops::deref::Deref>::deref\((p\d)\)", r"TEXT(\1)"),
    (r"<alloc::borrow::Cow<'_, T> as core::convert::AsRef<T>>::as_ref\((p\d)\)", r"TEXT(\1)"),
    (r"<alloc::borrow::Cow<'_, B> as core::ops::deref::Deref>::deref\((p\d)\)", r"TEXT(\1)"),
    # the text of a Box<str> / Rc<str> / Arc<str> argument (`&**other`): the built-in box deref or the smart pointer's Deref
    (r"\((p\d)\.0\.0 as \*const str\)", r"TEXT(\1)"),
    (r"<alloc::(?:boxed::Box|rc::Rc|sync::Arc)<T(?:, A)?> as core::ops::deref::Deref>::deref\((p\d)\)", r"TEXT(\1)"),
]


def norm(d, self_ty=None, arg_tys=None):
    for pat, rep in TEXT_VIEWS:
        d = re.sub(pat, rep, d)
    return d


def ret_defs(b):
    return [describe(b, ("call", bb) if si == "term" else b.origin_rvalue(x)) for (bb, si, x) in b.defs.get(0, [])]


def _empty_input_guard(b, bb, inputs=("p1",)):
    from guards import EMPTY_PREDS, LEN_FNS
    for g in guards_at(b, bb):
        if g[0] == "pred" and g[1] in EMPTY_PREDS and g[3] is True and describe(b, g[2]) in inputs:
            return True
        if g[0] == "cmp" and (g[2], g[3]) == (0, 0) and describe(b, g[1]) in ["%s(%s)" % (l, i) for l in LEN_FNS for i in inputs]:
            return True
    return False


EMPTY_RESULTS = ("LeanString::new()", "core::result::Result::Ok{LeanString::new()}")


def ret_defs_nonempty(b, inputs=("p1",)):
    """ret_defs without the early `LeanString::new()` returned for an empty input (decoding nothing
    gives the empty string: the general path would build the same)"""
    out = []
    for (bb, si, x) in b.defs.get(0, []):
        d = describe(b, ("call", bb) if si == "term" else b.origin_rvalue(x))
        if d in EMPTY_RESULTS and _empty_input_guard(b, bb, inputs):
            continue
        out.append(d)
    return out


STR_EQ = ("core::str::traits::<impl core::cmp::PartialEq for str>::eq",)
# `a == b` on two &str desugars to the &A == &B blanket impl, which forwards to str's eq
STR_EQ_ALL = STR_EQ + ("core::cmp::impls::<impl core::cmp::PartialEq<&B> for &A>::eq",)
GLUE_CALLS = ("LeanString::as_str", "alloc::string::String::as_str", "<alloc::string::String as core::ops::deref::Deref>::deref",
              "<alloc::borrow::Cow<'_, T> as core::convert::AsRef<T>>::as_ref", "<alloc::borrow::Cow<'_, B> as core::ops::deref::Deref>::deref",
              "<LeanString as core::ops::deref::Deref>::deref", "repr::Repr::as_str",
              "<alloc::boxed::Box<T, A> as core::ops::deref::Deref>::deref", "<alloc::rc::Rc<T, A> as core::ops::deref::Deref>::deref", "<alloc::sync::Arc<T, A> as core::ops::deref::Deref>::deref")
STR_CMP = ("core::str::traits::<impl core::cmp::Ord for str>::cmp",)
STR_HASH = ("core::hash::impls::<impl core::hash::Hash for str>::hash",)


def _raw_text(p, ty):
    """how a non-LeanString argument of type ty denotes its text"""
    if ty == "str":
        return [p]
    if ty == "&str":
        return [p]
    return ["TEXT(%s)" % p]


def rule_C17(ctx, rule="C17-deleg"):
    F = ctx.F
    impls = [i for i in F.impls if ("LeanString" == i["self"] or "LeanString" in i["trait_args"]) and not i["self"].startswith("errors::")]
    seen = {}
    eq_family = {i["items"]["eq"] for i in impls if i["trait"] == "core::cmp::PartialEq" and "eq" in i["items"]}
    # lifetime names carry no meaning here: `&'a str` is `&str`, `Cow<'a, str>` is `Cow<'_, str>`
    nolt = lambda ty: re.sub(r"<'(?!static\b)\w+,", "<'_,", re.sub(r"&'(?!static\b)\w+ ", "&", ty))
    for i in impls:
        tr, self_ty, targs = i["trait"], nolt(i["self"]), [nolt(x) for x in i["trait_args"]]
        key = (tr, self_ty, tuple(targs))
        if i.get("automatically_derived") and tr.startswith("core::cmp") or (i.get("automatically_derived") and tr in ("core::hash::Hash", "core::fmt::Debug")):
            ctx.ob(rule, "%s for %s" % (tr, self_ty), "no-derive", False, detail="derived (structural) impl of %s on %s compares/hashes the representation, not the text" % (tr, self_ty))
            continue
        for nm, k in i["items"].items():
            b = F.bodies.get(k)
            if b is None:
                continue
            ds = [norm(d) for d in ret_defs(b)]
            calls = [callee_name(t) for _, t in b.calls()]
            site = nm
            def ob(ok, how, detail):
                seen[key] = True
                ctx.ob(rule, k, site, ok, how=how, detail=detail)
            if tr == "core::cmp::PartialEq" and nm == "eq":
                other = targs[0]
                a = "TEXT(p1)" if self_ty == "LeanString" else _raw_text("p1", self_ty)[0]
                c = "TEXT(p2)" if other == "LeanString" else _raw_text("p2", other)[0]
                ok = False
                if len(ds) == 1:
                    m = re.match(r"^(%s)\((.*), (.*)\)$" % "|".join(re.escape(f) for f in STR_EQ_ALL), ds[0])
                    if m:
                        x, y = m.group(2).lstrip("&"), m.group(3).lstrip("&")
                        okx = x == a or (a.startswith("*") and x == a[1:] and m.group(1) != STR_EQ[0])
                        oky = y == c or (c.startswith("*") and y == c[1:] and m.group(1) != STR_EQ[0]) or (not c.startswith("TEXT") and y.lstrip("*") == c.lstrip("*"))
                        okx = okx or (not a.startswith("TEXT") and x.lstrip("*") == a.lstrip("*"))
                        ok = okx and oky
                fwd = None
                if not ok and len(ds) == 1:
                    # forwarding to a sibling impl (PartialEq<&str> via PartialEq<str>, `other == self`):
                    # fine when the two arguments denote the same two texts (equality is symmetric);
                    # the sibling is judged on its own
                    m = re.match(r"^(<[^()]* as core::cmp::PartialEq<[^()]*>>::eq|<impl core::cmp::PartialEq<[^()]*> for [^()]*>::eq)\((.*), (.*)\)$", ds[0])
                    if m and m.group(1) in eq_family and m.group(1) != k:
                        tys = {"p1": self_ty, "p2": other}
                        den = lambda x: (x if tys.get(x) in ("str", "&str") else "TEXT(%s)" % x) if x in tys else x
                        if {den(m.group(2)), den(m.group(3))} == {a, c}:
                            ok, fwd = True, m.group(1)
                extra = [n for n in calls if n not in STR_EQ_ALL and n not in GLUE_CALLS and n != fwd]
                ob(ok and not extra, ("eq forwards to %s with the same two texts" % fwd) if fwd else "eq = str equality of text(self) and text(other)", "%s for %s: eq returns %s (calls %s): not a pure comparison of the two texts" % (tr, self_ty, ds, calls))
            elif tr == "core::cmp::PartialEq" and nm == "ne":
                ob(False, "", "custom `ne` on %s" % self_ty)
            elif tr == "core::cmp::Ord" and nm == "cmp":
                want = ["%s(TEXT(p1), TEXT(p2))" % f for f in STR_CMP]
                ob(len(ds) == 1 and ds[0] in want and not [n for n in calls if n not in STR_CMP and n not in GLUE_CALLS], "cmp = <str as Ord>::cmp(text, text)", "Ord::cmp returns %s" % ds)
            elif tr == "core::cmp::PartialOrd" and nm == "partial_cmp":
                other = targs[0] if targs else "LeanString"
                a = "TEXT(p1)" if self_ty == "LeanString" else _raw_text("p1", self_ty)[0]
                c = "TEXT(p2)" if other == "LeanString" else _raw_text("p2", other)[0]
                want = ["core::option::Option::Some{<LeanString as core::cmp::Ord>::cmp(p1, p2)}"] + ["core::option::Option::Some{%s(%s, %s)}" % (f, a, c) for f in STR_CMP] + ["core::str::traits::<impl core::cmp::PartialOrd for str>::partial_cmp(%s, %s)" % (a, c)]
                ob(len(ds) == 1 and ds[0] in want, "partial_cmp = Some(cmp)", "partial_cmp returns %s" % ds)
            elif tr == "core::cmp::PartialOrd":
                ob(False, "", "custom PartialOrd::%s on LeanString" % nm)
            elif tr == "core::hash::Hash" and nm == "hash":
                # hash returns (): look at the calls instead
                hc = [(bb, t) for bb, t in b.calls() if callee_name(t) in STR_HASH]
                ok = len(hc) == 1 and norm(describe(b, b.origin_operand(hc[0][1]["args"][0]))) == "TEXT(p1)" and describe(b, b.origin_operand(hc[0][1]["args"][1])) == "p2" and not [n for n in calls if n not in STR_HASH and n not in GLUE_CALLS]
                ob(ok, "hash = <str as Hash>::hash(text(self), state)", "Hash::hash calls %s" % calls)
            elif tr == "core::hash::Hash":
                # hash_slice (or any other provided method) overridden: a slice of strings then hashes by
                # something else than the texts
                ob(False, "", "custom Hash::%s on %s: only `hash` is implemented, the provided methods stay str's" % (nm, self_ty))
            elif tr in ("core::cmp::Ord", "core::cmp::Eq") and nm != "cmp":
                ob(False, "", "custom %s::%s on %s" % (tr.rsplit("::", 1)[1], nm, self_ty))
            elif tr in ("core::fmt::Display", "core::fmt::Debug") and nm == "fmt":
                want = "<str as %s>::fmt(TEXT(p1), p2)" % tr
                okf = ds == [want] and not [n for n in calls if n not in GLUE_CALLS and not n.endswith("::fmt")]
                if not okf and tr == "core::fmt::Display":
                    # <str as Display>::fmt(s, f) is, by definition, f.pad(s)
                    okf = ds == ["core::fmt::Formatter::<'a>::pad(p2, TEXT(p1))"] and not [n for n in calls if n not in GLUE_CALLS and n != "core::fmt::Formatter::<'a>::pad"]
                ob(okf, "fmt = <str as %s>::fmt(text(self), f)" % tr.rsplit("::", 1)[1], "%s::fmt returns %s (calls %s)" % (tr, ds, calls))
            elif tr in ("core::ops::deref::Deref", "core::borrow::Borrow") or (tr == "core::convert::AsRef" and targs == ["str"]):
                ob(ds == ["TEXT(p1)"] and not [n for n in calls if n not in GLUE_CALLS], "%s = as_str(self)" % nm, "%s::%s returns %s" % (tr, nm, ds))
            elif tr == "core::convert::AsRef" and targs == ["[u8]"]:
                ob(ds == ["LeanString::as_bytes(p1)"] and len(calls) == 1, "as_ref = as_bytes(self)", "AsRef<[u8]> returns %s" % ds)
            elif tr == "core::convert::AsRef" and "OsStr" in targs[0]:
                ob(len(ds) == 1 and re.match(r"^std::ffi::(os_str::)?OsStr::new\(TEXT\(p1\)\)$", ds[0]) is not None, "as_ref = OsStr::new(as_str(self))", "AsRef<OsStr> returns %s" % ds)
    # completeness
    have = {(i["trait"], nolt(i["self"]), tuple(nolt(x) for x in i["trait_args"])) for i in impls}
    need = [("core::cmp::PartialEq", "LeanString", ("LeanString",)), ("core::cmp::Eq", "LeanString", ()), ("core::cmp::Ord", "LeanString", ()),
            ("core::cmp::PartialOrd", "LeanString", ("LeanString",)), ("core::hash::Hash", "LeanString", ()), ("core::borrow::Borrow", "LeanString", ("str",)),
            ("core::fmt::Display", "LeanString", ()), ("core::fmt::Debug", "LeanString", ()), ("core::ops::deref::Deref", "LeanString", ()),
            ("core::convert::AsRef", "LeanString", ("str",)), ("core::convert::AsRef", "LeanString", ("[u8]",))]
    for other in ("str", "&str", "alloc::string::String", "alloc::borrow::Cow<'_, str>"):
        need.append(("core::cmp::PartialEq", "LeanString", (other,)))
        need.append(("core::cmp::PartialEq", other, ("LeanString",)))
    for n in need:
        ctx.ob(rule, "%s for %s" % (n[0], n[1]), "present<%s>" % ",".join(n[2]), n in have, how="impl present", detail="impl %s<%s> for %s is missing (comparison/lookup in that direction no longer compiles or falls back to something else)" % (n[0], ",".join(n[2]), n[1]))
    rule_views(ctx, rule)


def rule_views(ctx, rule="C17-deleg"):
    """as_str / as_bytes / len / is_empty are the storage layer's views; is_empty is len() == 0"""
    F = ctx.F
    # the views themselves
    for fn, want in (("LeanString::as_str", "repr::Repr::as_str(p1.0)"), ("LeanString::as_bytes", "repr::Repr::as_bytes(p1.0)"), ("LeanString::len", "repr::Repr::len(p1.0)"),
                     ("LeanString::is_empty", "repr::Repr::is_empty(p1.0)"), ("LeanString::capacity", "repr::Repr::capacity(p1.0)"), ("repr::Repr::as_str", "core::str::converts::from_utf8_unchecked(repr::Repr::as_bytes(p1))")):
        b = F.bodies.get(fn)
        ctx.need(rule, fn, "anchor", b is not None, "%s not found" % fn)
        if b:
            ds = ret_defs(b)
            okv = ds == [want]
            if fn == "LeanString::is_empty" and not okv:
                okv = ds in (["Eq(LeanString::len(p1), const:0)"], ["Eq(repr::Repr::len(p1.0), const:0)"])   # len() == 0, one level up
            ctx.ob(rule, fn, "view", okv, how="%s = %s" % (fn, want), detail="%s returns %s" % (fn, ds))
    b = F.bodies.get("repr::Repr::is_empty")
    if b:
        ds = ret_defs(b)
        ok = ds == ["Eq(repr::Repr::len(p1), const:0)"]
        if not ok and sorted(ds) == ["const:0", "const:1"]:
            # `matches!(self.len(), 0)`: the `true` definition sits on the edge len() == 0
            for (bb, si, x) in b.defs.get(0, []):
                if si != "term" and x["k"] == "use" and "c" in x["a"] and x["a"]["c"].get("scalar") == 1:
                    ok = any(g[0] == "cmp" and describe(b, g[1]) == "repr::Repr::len(p1)" and g[2] == 0 and g[3] == 0 for g in guards_at(b, bb))
        ctx.ob(rule, b.path, "view", ok, how="is_empty = (len() == 0)", detail="Repr::is_empty returns %s" % ds)


FROMSTR = r"(?:<LeanString as core::convert::From<&str>>::from|core::convert::From::from)"
FROMFN = r"fn:(?:<LeanString as core::convert::From<&str>>::from|core::convert::From::from::<LeanString, &'?\w* ?str>)"


def mapped_result(b, ds, X, err_pat=None):
    """the function returns X's Ok payload wrapped by LeanString::from, and X's error (or, with
    err_pat, an error built as err_pat) otherwise — as a combinator chain, a match, or `?`.
    X is a regex for the describe() of the fallible call."""
    F = b.facts
    if len(ds) == 1 and ds[0].startswith("phi(") and ds[0].endswith(")"):
        # the two exits, seen through a private helper the body forwards to: split at top level
        inner, parts, depth, cur = ds[0][4:-1], [], 0, ""
        for ch in inner:
            if ch in "({<[":
                depth += 1
            elif ch in ")}>]":
                depth -= 1
            if ch == "," and depth == 0:
                parts.append(cur.strip())
                cur = ""
            else:
                cur += ch
        parts.append(cur.strip())
        ds = parts
    if len(ds) == 1:
        d = ds[0]
        if err_pat is None and re.match(r"^core::result::Result::<T, E>::map\(%s, %s\)$" % (X, FROMFN), d):
            return True, "map(from)"
        m = re.match(r"^core::result::Result::<T, E>::map_err\(core::result::Result::<T, E>::map\(%s, %s\), (.*)::None\{.*\}\)$" % (X, FROMFN), d)
        if m and err_pat is not None:
            cb = F.bodies.get(m.group(1))
            if cb and any(re.search(err_pat.replace("p2", r"(p\d|\*?&?\*?p\d\.\d)"), x) or re.search(err_pat.split("{")[0].replace("\\", "\\"), x) for x in ret_defs(cb)):
                return True, "map(from).map_err(invalid_value)"
            return False, "map_err closure does not build the expected error"
        return False, "single definition is not map(from)"
    oks = [d for d in ds if d.startswith("core::result::Result::Ok{")]
    rest = [d for d in ds if d not in oks]
    if len(oks) != 1 or not re.match(r"^core::result::Result::Ok\{%s\(ok\(%s\)\)\}$" % (FROMSTR, X), oks[0]):
        return False, "Ok value is not from(ok(X))"
    for d in rest:
        if err_pat is None:
            if not re.match(r"^err\(%s\)$" % X, d):
                return False, "other exit is not X's error"
        else:
            if not (d.startswith("core::result::Result::Err{") and re.search(err_pat, d)):
                return False, "error exit does not build the expected error"
    return bool(rest), "match/?"


# ----------------------------------------------------------------------------- C19
def rule_C19(ctx, rule="C19-deleg"):
    F = ctx.F
    feats = set(F.config["features"])
    ser = [i for i in F.impls if i["trait"].endswith("ser::Serialize") and i["self"] == "LeanString"]
    de = [i for i in F.impls if i["trait"].endswith("de::Deserialize") and i["self"] == "LeanString"]
    vis = [i for i in F.impls if i["trait"].endswith("de::Visitor") and "LeanString" in i["self"]]
    arb = [i for i in F.impls if i["trait"] == "arbitrary::Arbitrary" and i["self"] == "LeanString"]
    if "serde" not in feats:
        ctx.ob(rule, "features::serde", "gated-off", not ser and not de, how="no serde impls without the serde feature", detail="serde impls are compiled without the feature")
    if "arbitrary" not in feats:
        ctx.ob(rule, "features::arbitrary", "gated-off", not arb, how="no Arbitrary impl without the arbitrary feature", detail="Arbitrary impl is compiled without the feature")
    if "serde" in feats:
        ctx.need(rule, "features::serde", "impls", len(ser) == 1 and len(de) == 1 and len(vis) == 1, "serde impls missing with the feature on (Serialize %d, Deserialize %d, Visitor %d)" % (len(ser), len(de), len(vis)), how="Serialize, Deserialize, Visitor present")
        for i in ser:
            b = F.bodies.get(i["items"].get("serialize"))
            if b:
                ds = [norm(d) for d in ret_defs(b)]
                ok = len(ds) == 1 and (re.match(r"^serde(_core)?::ser::impls::<impl serde(_core)?::ser::Serialize for str>::serialize\(TEXT\(p1\), p2\)$", ds[0]) is not None
                                       or re.match(r"^serde(_core)?::ser::Serializer::serialize_str\(p2, TEXT\(p1\)\)$", ds[0]) is not None)   # what <str as Serialize>::serialize does
                ctx.ob(rule, b.path, "serialize", ok, how="serialize = <str as Serialize>::serialize(as_str(self), serializer) (what String does)", detail="Serialize returns %s" % ds)
        for i in de:
            b = F.bodies.get(i["items"].get("deserialize"))
            if b:
                ds = ret_defs(b)
                ok = len(ds) == 1 and re.match(r"^serde(_core)?::de::Deserializer::deserialize_(string|str)\(p1, .*LeanStringVisitor::LeanStringVisitor\{\}\)$", ds[0]) is not None
                ctx.ob(rule, b.path, "deserialize", ok, how="deserialize = deserializer.deserialize_string(visitor)", detail="Deserialize returns %s" % ds)
        for i in vis:
            items = i["items"]
            for m in ("visit_str", "visit_borrowed_str", "visit_bytes", "visit_borrowed_bytes"):
                ctx.ob(rule, i["self"], "has:" + m, m in items, how="visitor implements " + m, detail="visitor lacks %s: that input kind is rejected or routed through the default" % m)
            # ... and accepts nothing else: String's own visitor takes strings and byte strings only (a
            # `visit_seq` / `visit_char` / `visit_u64` makes LeanString deserialize from inputs String
            # rejects, through decoding code of its own); visit_string / visit_byte_buf may be spelled out
            # when they forward to the borrowed forms
            allowed = {"Value", "expecting", "visit_str", "visit_borrowed_str", "visit_bytes", "visit_borrowed_bytes", "visit_string", "visit_byte_buf"}
            extra = sorted(m for m in items if m not in allowed)
            ctx.ob(rule, i["self"], "no-other-input-kinds", not extra, how="visitor accepts strings and byte strings only (as String's does)", detail="visitor also implements %s: inputs String's Deserialize rejects are decoded by the crate's own code" % extra)
            for m, to in (("visit_string", "visit_str"), ("visit_byte_buf", "visit_bytes")):
                if m in items and F.bodies.get(items[m]) is not None:
                    bm = F.bodies[items[m]]
                    cs = [callee_name(t) for _, t in bm.calls() if t.get("local_key") or "visit_" in callee_name(t)]
                    ctx.ob(rule, bm.path, m, to in items and items[to] in cs, how="forwards to %s" % to, detail="%s does not forward to %s (calls %s)" % (m, to, cs))
            def forwards(b, to):
                """`visit_borrowed_x(self, v) = self.visit_x(v)`: judged at visit_x"""
                ds_ = ret_defs(b)
                return to in items and len(ds_) == 1 and ds_[0] == "%s(p1, p2)" % items[to] and [callee_name(t) for _, t in b.calls()] == [items[to]]
            for m in ("visit_str", "visit_borrowed_str"):
                b = F.bodies.get(items.get(m))
                if b and m == "visit_borrowed_str" and forwards(b, "visit_str"):
                    ctx.ob(rule, b.path, m, True, how="forwards to visit_str(v)")
                    continue
                if b:
                    ds = ret_defs(b)
                    ctx.ob(rule, b.path, m, len(ds) == 1 and re.match(r"^core::result::Result::Ok\{%s\(p2\)\}$" % FROMSTR, ds[0]) is not None, how="Ok(LeanString::from(v))", detail="%s returns %s" % (m, ds))
            for m in ("visit_bytes", "visit_borrowed_bytes"):
                b = F.bodies.get(items.get(m))
                if b and m == "visit_borrowed_bytes" and forwards(b, "visit_bytes"):
                    ctx.ob(rule, b.path, m, True, how="forwards to visit_bytes(v)")
                    ctx.ob(rule, b.path, m + ":validates", True, how="forwards to visit_bytes(v)")
                    continue
                if b:
                    ds = sorted(ret_defs(b))
                    X = r"core::str::converts::from_utf8\(p2\)"
                    ok, why = mapped_result(b, ds, X, err_pat=r"de::Error::invalid_value\(serde(_core)?::de::Unexpected::Bytes\{p2\}")
                    ctx.ob(rule, b.path, m, ok, how="from_utf8(v): Ok -> LeanString::from(s), Err -> invalid_value(Unexpected::Bytes(v))", detail="%s returns %s (%s)" % (m, ds, why))
                    names = [callee_name(t) for _, _, t in inlined_calls(b)]
                    bad = [n for n in names if "unchecked" in n or "lossy" in n]
                    ctx.ob(rule, b.path, m + ":validates", not bad and "core::str::converts::from_utf8" in names, how="validates with core::str::from_utf8", detail="%s uses %s" % (m, bad or names))
    if "arbitrary" in feats:
        ctx.need(rule, "features::arbitrary", "impl", len(arb) == 1, "Arbitrary impl missing with the feature on", how="Arbitrary impl present")
        for i in arb:
            for m in ("arbitrary", "arbitrary_take_rest"):
                b = F.bodies.get(i["items"].get(m))
                ctx.ob(rule, "arbitrary::Arbitrary for LeanString", "has:" + m, b is not None, how="overrides " + m, detail="Arbitrary::%s not overridden" % m)
                if b:
                    ds = sorted(ret_defs(b))
                    X = r"arbitrary::foreign::core::str::<impl arbitrary::Arbitrary<'a> for &'a str>::%s\(p1\)" % m
                    ok, why = mapped_result(b, ds, X)
                    if not ok and m == "arbitrary":
                        # `u.arbitrary::<&str>()` is by definition <&str as Arbitrary>::arbitrary(u)
                        ga = [t.get("generic_args", []) for _, t in b.calls() if callee_name(t) == "arbitrary::unstructured::Unstructured::<'a>::arbitrary"]
                        if len(ga) == 1 and len(ga[0]) >= 1 and re.match(r"^&('\w+ )?str$", ga[0][-1]):
                            ok, why = mapped_result(b, ds, r"arbitrary::unstructured::Unstructured::<'a>::arbitrary\(p1\)")
                    ctx.ob(rule, b.path, m, ok, how="<&str as Arbitrary>::%s(u).map(LeanString::from)" % m, detail="%s returns %s (%s)" % (m, ds, why))
            b = F.bodies.get(i["items"].get("size_hint"))
            if b:
                ds = ret_defs(b)
                ctx.ob(rule, b.path, "size_hint", len(ds) == 1 and ds[0].endswith("for &'a str>::size_hint(p1)"), how="size_hint = <&str as Arbitrary>::size_hint(depth)", detail="size_hint returns %s" % ds)


# ----------------------------------------------------------------------------- C16
REPL = 0xFFFD


def rule_C16(ctx, rule="C16-decode"):
    F = ctx.F
    # from_utf8
    b = F.bodies.get("LeanString::from_utf8")
    ctx.need(rule, "LeanString::from_utf8", "anchor", b is not None, "from_utf8 not found")
    if b:
        ds = ret_defs(b)
        oks = [d for d in ds if d.startswith("core::result::Result::Ok{")]
        ok = len(oks) == 1 and re.match(r"^core::result::Result::Ok\{%s\(ok\(core::str::converts::from_utf8\(p1\)\)\)\}$" % FROMSTR, oks[0]) is not None
        alt = ds == ["core::result::Result::<T, E>::map(alloc::string::String::from_utf8(p1), fn:<LeanString as core::convert::From<alloc::string::String>>::from)"]
        # `str::from_utf8(buf).map(LeanString::from)`: the same two arms, written as a combinator
        alt = alt or (len(ds) == 1 and re.match(r"^core::result::Result::<T, E>::map\(core::str::converts::from_utf8\(p1\), fn:(core::convert::From::from::<LeanString, &(\'\w+ )?str>|<LeanString as core::convert::From<&(\'\w+ )?str>>::from|core::convert::Into::into::<&(\'\w+ )?str, LeanString>)\)$", ds[0]) is not None)
        ctx.ob(rule, b.path, "Ok=from(validated text)", ok or alt, how="Ok(LeanString::from(core::str::from_utf8(buf)?))", detail="from_utf8 returns %s" % ds)
        errs = [d for d in ds if d.startswith("err(")]
        ctx.ob(rule, b.path, "Err=utf8 error unchanged", alt or errs == ["err(core::str::converts::from_utf8(p1))"], how="core's Utf8Error is returned as is", detail="from_utf8 error path is %s" % [d for d in ds if d not in oks])
        names = [callee_name(t) for _, t in b.calls()]
        ctx.ob(rule, b.path, "no-unchecked", not any("unchecked" in n or "lossy" in n for n in names), how="no unchecked / lossy call", detail="from_utf8 calls %s" % names)
    _no_arith_on_input(ctx, rule, "LeanString::from_utf8")
    # from_utf8_lossy: canonical chunk loop
    b = F.bodies.get("LeanString::from_utf8_lossy")
    ctx.need(rule, "LeanString::from_utf8_lossy", "anchor", b is not None, "from_utf8_lossy not found")
    if b:
        names = [callee_name(t) for _, t in b.calls()]
        if "alloc::string::String::from_utf8_lossy" in names:
            ds = ret_defs(b)
            ctx.ob(rule, b.path, "delegates-to-String", len(ds) == 1 and "String::from_utf8_lossy(p1)" in ds[0], how="delegates to String::from_utf8_lossy(buf)", detail="returns %s" % ds)
        else:
            from guards import inlined_sites
            CH = r"core::str::lossy::<impl \[u8\]>::utf8_chunks\(p1\)"
            # the loop may be a `for`, a `while let` or a closure given to for_each: sites are seen
            # from the constructor through closures / private helpers, the chunk is `item(chunks)`
            ch = inlined_sites(b, lambda nm: nm == "core::str::lossy::<impl [u8]>::utf8_chunks")
            ok = len(ch) == 1 and ch[0].desc(0) == "p1"
            ctx.ob(rule, b.path, "chunks(buf)", ok, how="iterates buf.utf8_chunks()", detail="from_utf8_lossy does not iterate utf8_chunks of the input (%s)" % names)
            ps = inlined_sites(b, lambda nm: nm in ("LeanString::push_str", "LeanString::try_push_str"))
            okp = len(ps) == 1 and re.match(r"^core::str::lossy::Utf8Chunk::<'\w+>::valid\(item\(%s\)\)$" % CH, ps[0].desc(1)) is not None
            ctx.ob(rule, b.path, "push_str(chunk.valid())", okp, how="appends chunk.valid() of every chunk", detail="push_str operand is %s" % [st.desc(1) for st in ps])
            pc = inlined_sites(b, lambda nm: nm in ("LeanString::push", "LeanString::try_push"))
            okc = False
            why = "no push of the replacement character"
            if len(pc) == 1:
                st = pc[0]
                c = strip_refs(st.body.origin_operand(st.t["args"][1]))
                gs = st.guards()
                INV = r"core::str::lossy::Utf8Chunk::<'\w+>::invalid\(item\(%s\)\)" % CH
                cond = [g for g in gs if g[0] == "pred" and g[1] == "core::slice::<impl [T]>::is_empty" and g[3] is False and g[2] is not None and re.match("^" + INV, g[2])]
                # or a length / slice-pattern test: len(chunk.invalid()) >= 1
                cond += [g for g in gs if g[0] == "cmp" and g[2] == 1 and g[3] is None and re.search(INV, g[1])]
                cond += [g for g in gs if g[0] == "ne" and g[2] == 0 and re.search(INV, g[1])]
                okc = c[0] == "const" and c[2] == REPL and bool(cond)
                why = "push(%s) under %s" % (st.desc(1), gs)
                # and under nothing else value-dependent
                other = [g for g in gs if g[0] in ("cmp", "cmp2", "ne") and g not in cond]
                okc = okc and not other
            ctx.ob(rule, b.path, "replacement-iff-invalid-nonempty", okc, how="push(U+FFFD) exactly on the edge !chunk.invalid().is_empty()", detail="replacement character logic: %s" % why)
            # the result is the string the chunks were appended to - on every path (a fast path that
            # returns something built from one chunk's valid part skips the replacement logic)
            rds = ret_defs_nonempty(b)
            ctx.ob(rule, b.path, "result=accumulator", len(ps) == 1 and rds == [ps[0].desc(0)], how="returns the string every chunk was appended to (%s)" % (rds[:1]), detail="from_utf8_lossy can return %s; the appends go to %s" % (rds, [st.desc(0) for st in ps]))
            # the push of the replacement comes after the valid part of the same chunk
            if ps and pc:
                # within one iteration: once the replacement is pushed, the valid part's push is not
                # reached any more (before the next chunk is taken); and the valid part is appended on
                # every path to the replacement, except across an edge on which it is empty
                from guards import reach_cut, empty_edge
                X = ps[0].body
                nexts = {bb for bb, t in X.calls() if callee_name(t).endswith("Iterator>::next") or callee_name(t) == "core::iter::traits::iterator::Iterator::next"}
                okord = ps[0].body is pc[0].body
                if okord:
                    tgt = X.term(pc[0].bb).get("target")
                    after = reach_cut(X, tgt, lambda q: q in nexts) if tgt is not None else set()
                    okord = ps[0].bb not in after
                    isvalid = lambda d: re.match(r"^core::str::lossy::Utf8Chunk::<'\w+>::valid\(item\(%s\)\)$" % CH, d) is not None
                    starts = [X.term(n)["target"] for n in nexts if X.term(n).get("target") is not None] or [0]
                    for st0 in starts:
                        seen = reach_cut(X, st0, lambda q: q == ps[0].bb or q in nexts, lambda sb, lab: empty_edge(X, sb, lab, isvalid, ps[0].subst[-1]))
                        if pc[0].bb in seen:
                            okord = False
                ctx.ob(rule, b.path, "order", okord, how="valid part appended before the replacement", detail="replacement pushed before the chunk's valid part (or the valid part can be skipped)")
    _no_arith_on_input(ctx, rule, "LeanString::from_utf8_lossy")
    # from_utf16
    b = F.bodies.get("LeanString::from_utf16")
    ctx.need(rule, "LeanString::from_utf16", "anchor", b is not None, "from_utf16 not found")
    if b:
        names = [callee_name(t) for _, t in b.calls()]
        from guards import inlined_sites
        dec = inlined_sites(b, lambda nm: nm == "core::char::methods::<impl char>::decode_utf16")
        ok = len(dec) == 1 and dec[0].desc(0) == "core::iter::traits::iterator::Iterator::copied(core::slice::<impl [T]>::iter(p1))"
        ctx.ob(rule, b.path, "decode_utf16(buf)", ok, how="decodes char::decode_utf16(buf.iter().copied())", detail="from_utf16 decodes %s" % [st.desc(0) for st in dec])
        if dec and dec[0].body is not b:
            # the loop lives in a private helper: judge the rest there
            b = dec[0].body
        root = F.bodies["LeanString::from_utf16"]
        DEC = r"core::char::methods::<impl char>::decode_utf16\(core::iter::traits::iterator::Iterator::copied\(core::slice::<impl \[T\]>::iter\(p1\)\)\)"
        pc = inlined_sites(root, lambda nm: nm in ("LeanString::push", "LeanString::try_push"))
        okp = len(pc) == 1 and re.match(r"^ok\((core::result::Result::<T, E>::map_err\()?item\(%s\)" % DEC, pc[0].desc(1)) is not None
        ctx.ob(rule, b.path, "push(Ok(c))", okp, how="pushes every successfully decoded char unchanged", detail="push operand is %s" % [st.desc(1) for st in pc])
        okd = [d for d in ret_defs_nonempty(root) if d.startswith("core::result::Result::Ok{")]
        if len(pc) == 1 and pc[0].chain[0][0] is root:
            ctx.ob(rule, root.path, "result=accumulator", okd == ["core::result::Result::Ok{%s}" % pc[0].desc(0)], how="Ok carries the string every char was pushed to", detail="from_utf16 can return %s; the pushes go to %s" % (okd, pc[0].desc(0)))
        # Err(FromUtf16Error) on the first decoding error: an Err built under the Err arm of the decoded
        # item, `item.map_err(|_| FromUtf16Error)?`, or try_for_each over a closure that fails exactly
        # when the item is Err
        frames = [(root, None)]
        for st in (pc[:1] + dec[:1]):
            for (fb, _), sub in zip(st.chain, st.subst):
                if all(fb is not x for x, _ in frames):
                    frames.append((fb, sub))
        nerr, oke, via_q, via_tfe = 0, False, [], False
        alld = []
        for fb, sub in frames:
            # Err values built here (re-wrapping a callee's error, `Err(e) => Err(e)`, is a propagation)
            errb = [bb for bb, blk in enumerate(fb.blocks) for s_ in blk["stmts"] if s_["k"] == "assign" and s_["lhs"]["l"] == 0 and s_["rv"]["k"] == "aggregate" and s_["rv"].get("variant_name") == "Err"
                    and not describe(fb, fb.origin_rvalue(s_["rv"]), 0, sub).startswith("err(")]
            nerr += len(errb)
            for bb in errb:
                if any(g[0] == "cls" and g[2] == "Err" for g in guards_at(fb, bb)):
                    oke = True
            rd = [describe(fb, ("call", bb) if si == "term" else fb.origin_rvalue(x), 0, sub) for (bb, si, x) in fb.defs.get(0, [])]
            alld += rd
            via_q += [d for d in rd if re.match(r"^err\(core::result::Result::<T, E>::map_err\(item\(%s\)" % DEC, d)]
            if any(re.match(r"^core::result::Result::<T, E>::map_err\(core::result::Result::<T, E>::map\(item\(%s\), .*\), .*\)$" % DEC, d) for d in rd) and len(rd) == 1:
                via_tfe = True
        tfe_root = [d for d in alld if re.match(r"^err\(core::iter::traits::iterator::Iterator::try_for_each\(%s, " % DEC, d)]
        ok_err = (oke and nerr == 1) or (len(via_q) == 1 and nerr == 0) or (via_tfe and len(tfe_root) == 1 and nerr == 0)
        ctx.ob(rule, b.path, "first-error-wins", ok_err, how="returns Err(FromUtf16Error) on the decoder's Err item", detail="Err return is not tied to the decoder's Err item (%d Err sites, %s)" % (nerr, [d for d in alld if d.startswith("err(")]))
        ctx.ob(rule, b.path, "no-lossy", not any("lossy" in n or "unwrap_or" in n for n in names), how="no lossy substitution in the strict constructor", detail="from_utf16 calls %s" % names)
    _no_arith_on_input(ctx, rule, "LeanString::from_utf16")
    # from_utf16_lossy
    b = F.bodies.get("LeanString::from_utf16_lossy")
    ctx.need(rule, "LeanString::from_utf16_lossy", "anchor", b is not None, "from_utf16_lossy not found")
    if b:
        ds = ret_defs_nonempty(b)
        ok = len(ds) == 1 and re.match(r"^core::iter::traits::iterator::Iterator::collect\(core::iter::traits::iterator::Iterator::map\(core::char::methods::<impl char>::decode_utf16\(core::iter::traits::iterator::Iterator::copied\(core::slice::<impl \[T\]>::iter\(p1\)\)\), LeanString::from_utf16_lossy::\{closure#\d+\}::None\{\}\)\)$", ds[0]) is not None
        alt = len(ds) == 1 and "String::from_utf16_lossy(p1)" in ds[0]
        ok = ok or (len(ds) == 1 and re.match(r"^<LeanString as core::iter::traits::collect::FromIterator<char>>::from_iter\(core::iter::traits::iterator::Iterator::map\(core::char::methods::<impl char>::decode_utf16\(core::iter::traits::iterator::Iterator::copied\(core::slice::<impl \[T\]>::iter\(p1\)\)\), LeanString::from_utf16_lossy::\{closure#\d+\}::None\{\}\)\)$", ds[0]) is not None)
        ctx.ob(rule, b.path, "decode.map(unwrap_or).collect", ok or alt, how="decode_utf16(buf.iter().copied()).map(closure).collect::<LeanString>()", detail="from_utf16_lossy returns %s" % ds)
        mc = re.search(r", (LeanString::from_utf16_lossy::\{closure#\d+\})::None\{\}\)\)$", ds[0]) if len(ds) == 1 else None
        c = F.bodies.get(mc.group(1)) if mc else F.bodies.get("LeanString::from_utf16_lossy::{closure#0}")
        if c is None and len(ds) == 1:
            # a local fn item instead of a closure
            m2 = re.search(r"Iterator::map\(.*, fn:([^)]+)\)\)$", ds[0])
            if m2 and m2.group(1) in F.bodies:
                c = F.bodies[m2.group(1)]
                ok = ok or re.match(r"^core::iter::traits::iterator::Iterator::collect\(core::iter::traits::iterator::Iterator::map\(core::char::methods::<impl char>::decode_utf16\(core::iter::traits::iterator::Iterator::copied\(core::slice::<impl \[T\]>::iter\(p1\)\)\), fn:", ds[0]) is not None
                ctx.obs.pop(("C16-decode", b.path, "decode.map(unwrap_or).collect"), None)
                ctx.ob(rule, b.path, "decode.map(unwrap_or).collect", ok or alt, how="decode_utf16(buf.iter().copied()).map(f).collect::<LeanString>()", detail="from_utf16_lossy returns %s" % ds)
        if c and not alt:
            cds = sorted(ret_defs(c))
            okc = len(cds) == 1 and re.match(r"^core::result::Result::<T, E>::unwrap_or\(p[12], const:core::char::(methods::<impl char>::)?REPLACEMENT_CHARACTER\)$", cds[0]) is not None
            cv = None
            for bb, t in c.calls():
                if callee_name(t).endswith("::unwrap_or"):
                    cv = strip_refs(c.origin_operand(t["args"][1]))
            if not okc and len(cds) == 2:
                # explicit match: Ok(c) => c, Err(_) => REPLACEMENT_CHARACTER
                okc = any(re.match(r"^ok\(p[12]\)$", d) for d in cds) and any(re.match(r"^const:core::char::(methods::<impl char>::)?REPLACEMENT_CHARACTER$", d) for d in cds)
                for (bb, si, x) in c.defs.get(0, []):
                    if si != "term" and x["k"] == "use" and "c" in x["a"] and "scalar" in x["a"]["c"]:
                        cv = ("const", "char", x["a"]["c"]["scalar"], None)
            ctx.ob(rule, c.path, "unwrap_or(U+FFFD)", okc and cv is not None and cv[2] == REPL, how="each unit: decoded.unwrap_or('\\u{FFFD}')", detail="lossy closure returns %s (constant %s)" % (cds, cv))
        # collect goes to FromIterator<char>
        for bb, t in b.calls():
            if callee_name(t) == "core::iter::traits::iterator::Iterator::collect":
                ga = t.get("generic_args", [])
                item = c.local_ty(0) if c else None
                ctx.ob(rule, b.path, "collect-into-LeanString", bool(ga) and ga[-1] == "LeanString" and item == "char", how="collect::<LeanString>() of chars (FromIterator<char>)", detail="collect target %s, item type %s" % (ga[-1:] , item))
    _no_arith_on_input(ctx, rule, "LeanString::from_utf16_lossy")


def _no_arith_on_input(ctx, rule, fn):
    """no comparison or arithmetic on an input byte/unit in the decoding constructors"""
    b = ctx.F.bodies.get(fn)
    if not b:
        return
    bad = []
    for blk in b.blocks:
        for s in blk["stmts"]:
            if s["k"] == "assign" and s["rv"]["k"] == "bin":
                ty = s["rv"].get("aty", "")
                if ty in ("u8", "u16", "u32", "char"):
                    bad.append("%s on %s (line %s)" % (s["rv"]["op"], ty, s.get("line")))
    ctx.ob(rule, fn, "no-own-classification", not bad, how="no comparison / arithmetic on input units: all decoding decisions are core's", detail="%s inspects input units itself: %s" % (fn, bad[:3]))


# ----------------------------------------------------------------------------- C15 extras
def rule_C15(ctx, rule="C15"):
    F = ctx.F
    M = F.const_scalar("repr::MAX_INLINE_SIZE")
    # bool constants
    enc = lambda txt: (txt + b"\0" * (M - 1 - len(txt)) + bytes([0xC0 | len(txt)])).hex()
    b = F.bodies.get("repr::Repr::from_bool")
    if b:
        # the constant returned on each edge, by its bytes (a named const or an inline `const { .. }`)
        ok, got = False, {}
        for bb in range(b.n):
            t = b.term(bb)
            if t["k"] == "switch" and strip_refs(b.origin_operand(t["discr"])) == ("param", 1):
                f_t = [tb for v, tb in t["arms"] if v == 0]
                t_t = t["otherwise"]
                def const_at(x):
                    for s in b.blocks[x]["stmts"]:
                        if s["k"] == "assign" and s["lhs"]["l"] == 0 and s["rv"]["k"] == "use" and "c" in s["rv"]["a"]:
                            c = s["rv"]["a"]["c"]
                            return c.get("bytes") or (F.consts.get(c.get("named") or "", {}) or {}).get("bytes")
                    return None
                got = {"true": const_at(t_t), "false": const_at(f_t[0]) if f_t else None}
                ok = got["true"] == enc(b"true") and got["false"] == enc(b"false")
        for nm, txt in (("TRUE", b"true"), ("FALSE", b"false")):
            ctx.ob(rule, "repr::Repr::from_bool::" + nm, "bytes", got.get(txt.decode()) == enc(txt), how="inline encoding of \"%s\" (text, zero padding, tag 0xC0|%d)" % (txt.decode(), len(txt)), detail="from_bool(%s) is %s" % (txt.decode(), got.get(txt.decode())))
        ctx.ob(rule, b.path, "selects", ok, how="true -> \"true\", false -> \"false\"", detail="from_bool does not return the encoding of \"true\" on the true edge / \"false\" on the false edge: %s" % got)
    b = F.bodies.get("repr::Repr::from_char")
    if b:
        ds = ret_defs(b)
        ctx.ob(rule, b.path, "encode_utf8", len(ds) == 1 and re.match(r"^repr::Repr::from_inline\(repr::inline_buffer::InlineBuffer::new\(core::char::methods::<impl char>::encode_utf8\(p1, ", ds[0]) is not None, how="from_char = inline(encode_utf8(ch))", detail="from_char returns %s" % ds)
    # error mapping
    for src, var in (("core::fmt::Error", "Fmt"), ("errors::reserve_error::ReserveError", "Reserve")):
        im = [i for i in F.impls if i["trait"] == "core::convert::From" and i["self"] == "errors::to_lean_string_error::ToLeanStringError" and i["trait_args"] == [src]]
        ctx.need(rule, "ToLeanStringError", "From<%s>" % src, len(im) == 1, "From<%s> for ToLeanStringError missing" % src)
        if im:
            b = F.bodies.get(im[0]["items"].get("from"))
            if b:
                ds = ret_defs(b)
                ctx.ob(rule, b.path, "variant", ds == ["errors::to_lean_string_error::ToLeanStringError::%s{p1}" % var], how="From<%s> builds %s" % (src.rsplit("::", 1)[1], var), detail="From<%s> returns %s" % (src, ds))
    # fmt::Write for LeanString
    im = [i for i in F.impls if i["trait"] == "core::fmt::Write" and i["self"] == "LeanString"]
    ctx.need(rule, "LeanString", "fmt::Write", len(im) == 1, "fmt::Write for LeanString missing")
    if im:
        extra = [k for k in im[0]["items"] if k != "write_str"]
        if extra == ["write_char"]:
            # an override that does what the provided method does: append the char, Ok(())
            wc = F.bodies.get(im[0]["items"]["write_char"])
            if wc is not None:
                cs = [(callee_name(t), [describe(wc, wc.origin_operand(a)) for a in t["args"]]) for _, t in wc.calls()]
                if cs == [("LeanString::push", ["p1", "p2"])] and ret_defs(wc) == ["core::result::Result::Ok{tuple::None{}}"]:
                    extra = []
        ctx.ob(rule, "<LeanString as core::fmt::Write>", "only-write_str", not extra, how="only write_str is overridden (or write_char as push(c); Ok(()))", detail="fmt::Write overrides %s" % extra)
        b = F.bodies.get(im[0]["items"].get("write_str"))
        if b:
            calls = [(callee_name(t), [describe(b, b.origin_operand(a)) for a in t["args"]]) for _, t in b.calls()]
            ds = ret_defs(b)
            ok = calls == [("LeanString::push_str", ["p1", "p2"])] and ds == ["core::result::Result::Ok{tuple::None{}}"]
            if not ok and ds == ["core::result::Result::Ok{tuple::None{}}"]:
                # `*self += s`: through the AddAssign<&str> impl, which is push_str(self, rhs)
                from guards import inlining, inlined_sites
                fw = {i2["items"][m2] for i2 in F.impls if i2["self"] == "LeanString" and i2["trait"] in ("core::ops::arith::AddAssign",) for m2 in i2["items"]}
                with inlining(fw):
                    sites = inlined_sites(b, lambda nm: nm == "LeanString::push_str")
                    allc = [callee_name(t) for _, _, t in inlined_calls(b)]
                    ok = len(sites) == 1 and [sites[0].desc(0), sites[0].desc(1)] == ["p1", "p2"] and all(n == "LeanString::push_str" or n in fw for n in allc)
                if not ok:
                    # ... which may itself be push_str written out: try_push_str(rhs) + the message panic
                    import r_api
                    uw, panic_fn = r_api.find_unwrap_helper(F)
                    with inlining(fw | {"LeanString::push_str"}):
                        sites = inlined_sites(b, lambda nm: nm == "LeanString::try_push_str")
                        allc = [callee_name(t) for _, _, t in inlined_calls(b)]
                        ok = len(sites) == 1 and [sites[0].desc(0), sites[0].desc(1)] == ["p1", "p2"] and (uw in allc or panic_fn in allc) and all(n in ("LeanString::push_str", "LeanString::try_push_str", uw, panic_fn) or n in fw for n in allc)
            if not ok and set(ds) == {"core::result::Result::Ok{tuple::None{}}"}:
                # an early `Ok(())` for the empty slice, where push_str appends nothing
                from guards import must_pass_call, empty_edge
                pure = ("core::str::<impl str>::is_empty", "core::str::<impl str>::len")
                ok = all(c == ("LeanString::push_str", ["p1", "p2"]) or (c[0] in pure and c[1] == ["p2"]) for c in calls) and \
                    must_pass_call(b, {"LeanString::push_str"}, 0, cut=lambda sb, lab: empty_edge(b, sb, lab, ("p2",)))
            ctx.ob(rule, b.path, "write_str=push_str", ok, how="write_str(s) = push_str(s); Ok(())", detail="write_str does %s and returns %s" % (calls, ds))
    # the generic fallback of try_to_lean_string
    key = "<T as traits::ToLeanString>::try_to_lean_string"
    b = F.bodies.get(key)
    if b:
        wf = [(hb, bb, t) for hb, bb, t in inlined_calls(b) if callee_name(t) == "core::fmt::Write::write_fmt"]
        ok = len(wf) == 1
        why = "%d write_fmt calls" % len(wf)
        if ok:
            hb, bb, t = wf[0]
            recv = strip_refs(hb.origin_operand(t["args"][0]))
            while recv[0] in ("ref", "rawptr"):
                recv = strip_refs(recv[2])
            ok = recv[0] in ("mem", "local") and hb.local_ty(recv[1]) == "LeanString"
            why = "write_fmt into %s" % describe(hb, recv)
            ds = [d for d in hb.defs.get(recv[1], [])] if ok else []
            init = [callee_name(x[2]) for x in ds if x[1] == "term"]
            ok = ok and init == ["LeanString::new"]
            why += " initialised by %s" % init
        ctx.ob(rule, key, "fallback=write!(LeanString::new(), \"{}\", self)", ok, how="generic arm formats into an empty LeanString through fmt::Write", detail="generic fallback: %s" % why)
        # ... with the plain `{}` template: one default placeholder and nothing else.  The compiler encodes the
        # format string as a byte template (core::fmt::Arguments docs): a placeholder is one byte 0b11______
        # followed by >= 2 bytes per option present (flags such as `#`, width, precision, explicit index), a
        # literal piece is its length + its bytes, the end is one 0 byte.  A template of exactly 2 bytes over
        # exactly 1 argument can therefore only be b"\xC0\0" = "{}"; `{:#}`, `{:>8}`, "{} " are all longer.
        if len(wf) == 1:
            hb, bb, t = wf[0]
            src = strip_refs(hb.origin_operand(t["args"][1]))
            plain, got = False, describe(hb, src)[:120]
            if src[0] == "call":
                ta = hb.term(src[1])
                if callee_name(ta) == "core::fmt::Arguments::<'a>::new":
                    got = "Arguments::new::<%s>" % ", ".join(ta.get("generic_args") or [])
                    plain = ta.get("generic_args") == ["2", "1"]
                    if plain:
                        # the one argument is the value's Display impl
                        arr = strip_refs(hb.origin_operand(ta["args"][1]))
                        while arr[0] in ("ref", "rawptr"):
                            arr = strip_refs(arr[2])
                        mk = [callee_name(x2) for _, x2 in hb.calls() if callee_name(x2).startswith("core::fmt::rt::Argument::<'a>::new_") or callee_name(x2).startswith("core::fmt::rt::Argument::<'_>::new_")]
                        if mk and any(not m.endswith("::new_display") for m in mk):
                            plain, got = False, got + " over " + ", ".join(mk)
            ctx.ob(rule, key, "fallback-template={}", plain, how="the fallback's format template is the 2-byte, 1-argument template (= \"{}\": default placeholder, no flags / width / precision, no literal text) over Argument::new_display",
                   detail="the generic fallback formats the value with %s, not with the plain \"{}\" template (2 template bytes, 1 Display argument): formatting options or literal text change what a Display impl writes" % got)
        # its error becomes the Fmt variant (through `?` + From<fmt::Error>, or built directly)
        inst = [t.get("inst") for _, _, t in inlined_calls(b) if "from_residual" in callee_name(t)]
        direct = False
        for hb, _, _ in inlined_calls(b):
            for blk in hb.blocks:
                for st in blk["stmts"]:
                    if st["k"] == "assign" and st["rv"]["k"] == "aggregate" and st["rv"].get("adt") == "errors::to_lean_string_error::ToLeanStringError" and st["rv"].get("variant_name") == "Fmt":
                        direct = True
        # ... or `Err(ToLeanStringError::from(e))` spelled out on the Err arm
        via_from = any(callee_name(t) == "<errors::to_lean_string_error::ToLeanStringError as core::convert::From<core::fmt::Error>>::from" and describe(hb, hb.origin_operand(t["args"][0])).startswith("err(core::fmt::Write::write_fmt(")
                       for hb, _, t in inlined_calls(b))
        ctx.ob(rule, key, "fallback-error", any("core::fmt::Error" in (x or "") for x in inst) or direct or via_from, how="a formatting error becomes ToLeanStringError::Fmt", detail="no conversion of fmt::Error into the Fmt variant in try_to_lean_string")
    # default method
    b = F.bodies.get("traits::ToLeanString::to_lean_string")
    if b:
        ds = ret_defs(b)
        import r_api
        uw, _pf = r_api.find_unwrap_helper(F)
        ctx.ob(rule, b.path, "default", len(ds) == 1 and (uw or _pf) is not None and (ds[0] in ("%s(traits::ToLeanString::try_to_lean_string(p1))" % uw, "ok(traits::ToLeanString::try_to_lean_string(p1))") and [callee_name(t) for _, t in b.calls()] in (["traits::ToLeanString::try_to_lean_string", uw], ["traits::ToLeanString::try_to_lean_string", _pf])), how="to_lean_string = try_to_lean_string().unwrap_with_msg()", detail="to_lean_string returns %s" % ds)
    # the String arm copies the String's text
    if b is not None:
        tb = F.bodies.get(key)
        for bb, t in tb.calls():
            if callee_name(t) == "alloc::string::String::as_str":
                nxt = [(b2, t2) for b2, t2 in tb.calls() if callee_name(t2) == "repr::Repr::from_str" and strip_refs(tb.origin_operand(t2["args"][0])) == ("call", bb)]
                ctx.ob(rule, key, "String-arm", len(nxt) == 1, how="&String -> Repr::from_str(s.as_str())", detail="String arm does not feed as_str() into Repr::from_str")


def rule_presize(ctx, rule="C09-presize"):
    """the decoding constructors pre-size with the number of input units - a lower bound of the text's
    UTF-8 length (one unit never decodes to less than one byte; an invalid sequence of up to three bytes
    becomes the three-byte U+FFFD) - so a text of at most MAX_INLINE_SIZE bytes is never given a heap
    buffer by the pre-sizing.  An estimate above the real length (three bytes per UTF-16 unit) would."""
    from guards import inlined_sites
    F = ctx.F
    n = 0
    for fn in ("LeanString::from_utf8_lossy", "LeanString::from_utf16", "LeanString::from_utf16_lossy"):
        b = F.bodies.get(fn)
        if not b:
            continue
        for st in inlined_sites(b, lambda nm: nm in ("LeanString::with_capacity", "LeanString::try_with_capacity", "repr::Repr::with_capacity", "LeanString::reserve", "LeanString::try_reserve")):
            n += 1
            a = st.desc(len(st.t["args"]) - 1)
            ctx.ob(rule, fn, "presize=len(input):" + st.label(), a == "core::slice::<impl [T]>::len(p1)", line=st.line, how="pre-sized with buf.len()",
                   detail="%s pre-sizes its result with %s: only the number of input units is known not to exceed the text's length; a larger estimate allocates for texts that fit inline" % (fn, a))
    ctx.need(rule, "crate", "presizing-sites", n >= 2, "only %d pre-sizing sites in the decoding constructors" % n, how="%d pre-sizing sites" % n)


def rule_operator_appends(ctx, rule="C11-ops"):
    """`s + rhs` and `s += rhs` are `s.push_str(rhs)` on the left operand: every path appends to it
    through the append operations (or a sibling operator impl), nothing else of the crate is called
    (no rebuilt exact-size result that throws the reserved capacity away), and `add` returns it"""
    from guards import must_pass_call
    import r_retain
    F = ctx.F
    base = ("LeanString::push_str", "LeanString::try_push_str", "LeanString::push", "LeanString::try_push")
    ops = {i["items"][m] for i in F.impls if i["self"] == "LeanString" and i["trait"] in ("core::ops::arith::Add", "core::ops::arith::AddAssign") for m in i["items"] if m in ("add", "add_assign")}
    n = 0
    for path in sorted(ops):
        b = F.bodies.get(path)
        if b is None:
            continue
        n += 1
        allowed = set(base) | ops | set(GLUE_CALLS)
        import r_api
        uw, panic_fn = r_api.find_unwrap_helper(F)
        allowed |= {x for x in (uw, panic_fn) if x}
        calls = [callee_name(t) for _, _, t in inlined_calls(b) if t.get("local_key") or callee_name(t).startswith("LeanString::")]
        extra = sorted({c for c in calls if c not in allowed})
        ok = must_pass_call(b, set(base) | (ops - {path})) and not extra
        # `*self = mem::take(self) + rhs`: the operand is emptied first, a panic in the append (a
        # refused allocation) leaves it empty
        moved = [callee_name(t) for _, t in b.calls() if callee_name(t) in ("core::mem::take", "core::mem::replace", "core::mem::swap", "core::ptr::read", "core::ptr::write")]
        if path.endswith("::add_assign"):
            moved += ["*self = .." for blk in b.blocks for st in blk["stmts"] if st["k"] == "assign" and st["lhs"]["l"] == 1 and st["lhs"]["p"] == ["deref"]]
        if moved:
            ok = False
            extra = extra + moved
        if ok and path.endswith("::add"):
            sib = tuple(o for o in ops if o != path and o.endswith("::add"))
            ok = all(d == "p1" or d.startswith("mem:") or any(d.startswith(o + "(p1, ") for o in sib) for d in ret_defs(b))
        ctx.ob(rule, path, "appends-to-left-operand", ok, how="push_str on the left operand on every path, nothing else",
               detail="%s does not simply append to its left operand: calls %s%s" % (path, sorted(set(calls)), ("; other operations: %s" % extra) if extra else ""))
    ctx.need(rule, "crate", "operator-impls", n >= 2, "only %d Add / AddAssign impls for LeanString" % n, how="%d operator impls" % n)
