#!/usr/bin/env python3
"""Pretty-print bodies of a fact file: show.py facts.json <substring> [...]"""
import json, sys

def pl(p):
    s = "_%d" % p["l"]
    for e in p["p"]:
        if e == "deref": s = "(*%s)" % s
        elif "f" in e: s = "%s.%d" % (s, e["f"])
        elif "idx" in e: s = "%s[_%d]" % (s, e["idx"])
        elif "cidx" in e: s = "%s[%d]" % (s, e["cidx"])
        elif "downcast" in e: s = "(%s as v%d)" % (s, e["downcast"])
        else: s = "%s{%s}" % (s, e)
    return s

def op(o):
    if "cp" in o: return pl(o["cp"])
    if "mv" in o: return "move " + pl(o["mv"])
    if "rtc" in o: return "rtc(%s)" % o["rtc"]
    c = o["c"]
    if "fn" in c: return "fn %s%s" % (c["fn"], c.get("fn_args", ""))
    if "scalar" in c:
        nm = c.get("named"); v = c.get("signed", c["scalar"])
        return "const %s_%s%s" % (v, c["ty"], "(%s)" % nm if nm else "")
    if "named" in c: return "const %s" % c["named"]
    return "const <%s>" % c["ty"]

def rv(r):
    k = r["k"]
    if k == "use": return op(r["a"])
    if k == "ref": return "&%s%s" % ("mut " if r["mut"] else "", pl(r["pl"]))
    if k == "rawptr": return "&raw %s %s" % ("mut" if r["mut"] else "const", pl(r["pl"]))
    if k == "cast": return "%s as %s (%s)" % (op(r["a"]), r["to"], r["kind"])
    if k == "bin": return "%s(%s, %s)" % (r["op"], op(r["a"]), op(r["b"]))
    if k == "un": return "%s(%s)" % (r["op"], op(r["a"]))
    if k == "discriminant": return "discriminant(%s)" % pl(r["pl"])
    if k == "aggregate":
        h = r.get("adt") or r.get("closure") or r["agg"]
        if r["agg"] == "adt": h += "::" + r["variant_name"]
        return "%s{%s}" % (h, ", ".join(op(f) for f in r["fields"]))
    if k == "repeat": return "[%s; %s]" % (op(r["a"]), r["n"])
    return str(r)

def show(b):
    print("fn %s  [%s:%s] %s args=%d" % (b["path"], b["file"], b["lines"], b.get("safety", ""), b["arg_count"]))
    for i, l in enumerate(b["locals"]):
        print("    let _%d: %s;%s" % (i, l["ty"], "  // " + l["name"] if "name" in l else ""))
    for i, blk in enumerate(b["blocks"]):
        print("  bb%d%s:" % (i, " (cleanup)" if blk["cleanup"] else ""))
        for s in blk["stmts"]:
            ex = "  // %d %s" % (s["line"], ",".join(s.get("expn", [])))
            if s["k"] == "assign": print("    %s = %s;%s" % (pl(s["lhs"]), rv(s["rv"]), ex))
            elif s["k"] in ("live", "dead"): pass
            else: print("    %s%s" % ({k: v for k, v in s.items() if k not in ("line", "expn")}, ex))
        t = blk["term"]; k = t["k"]
        ex = "  // %d %s" % (t["line"], ",".join(t.get("expn", [])))
        if k == "call":
            name = t.get("inst") or t.get("callee") or ("(%s)" % op(t["func"]))
            fl = "" if t["resolved"] else " UNRESOLVED"
            print("    %s = %s(%s) -> bb%s unwind %s%s%s" % (pl(t["dest"]), name, ", ".join(op(a) for a in t["args"]), t["target"], t["unwind"], fl, ex))
            for m in t.get("mono_calls", []): print("        mono: %s => %s" % (m["callee"], m["inst"]))
            for m in t.get("cb_impls", []): print("        cb: %s" % m["inst"])
            if t.get("cb_closures"): print("        cb_closures: %s" % t["cb_closures"])
        elif k == "switch":
            print("    switch %s [%s, otherwise bb%d]%s" % (op(t["discr"]), ", ".join("%d:bb%d" % (a, b2) for a, b2 in t["arms"]), t["otherwise"], ex))
        elif k == "drop":
            print("    drop(%s : %s) -> bb%d unwind %s  local_drops=%s generic=%s%s" % (pl(t["pl"]), t["ty"], t["target"], t["unwind"], t["local_drops"], t["generic_ty"], ex))
        elif k == "assert":
            print("    assert(%s == %s, %s) -> bb%d unwind %s%s" % (op(t["cond"]), t["expected"], t["msg_kind"], t["target"], t["unwind"], ex))
        elif k == "goto": print("    goto bb%d" % t["target"])
        else: print("    %s%s" % (k, ex))

if __name__ == "__main__":
    f = json.load(open(sys.argv[1]))
    for b in f["bodies"]:
        if any(s == b["path"] or (s.endswith("*") and s[:-1] in b["path"]) for s in sys.argv[2:]):
            show(b); print()
    if len(sys.argv) == 2:
        for b in f["bodies"]: print(b["path"])
