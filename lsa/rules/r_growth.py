"""C12: every growth site uses the growth rule on (old length, additional); the rule is the
specified formula max(len + len/2, len + additional) with saturation."""
import re
from facts import callee_name, strip_refs
from guards import describe, inlined_calls, inlined_sites, anchors

AG = "repr::heap_buffer::amortized_growth"
SAT_ADD = "core::num::<impl usize>::saturating_add"
SAT_MUL = "core::num::<impl usize>::saturating_mul"
MAX = "core::cmp::Ord::max"

# accepted spellings of G(len) = len + floor(len/2)  (all arithmetically equal, saturating at the top)
G_FORMS = [
    r"Div\(%s\(p1, const:3\), const:2\)" % re.escape(SAT_MUL),
    r"Shr\(%s\(p1, const:3\), const:1\)" % re.escape(SAT_MUL),
    r"%s\(p1, Div\(p1, const:2\)\)" % re.escape(SAT_ADD),
    r"%s\(p1, Shr\(p1, const:1\)\)" % re.escape(SAT_ADD),
    r"%s\(Div\(p1, const:2\), p1\)" % re.escape(SAT_ADD),
    # checked_mul(3).unwrap_or(usize::MAX) / 2  ==  saturating_mul(3) / 2
    r"Div\(core::option::Option::<T>::unwrap_or\(core::num::<impl usize>::checked_mul\(p1, const:3\), const:core::num::<impl usize>::MAX\), const:2\)",
]
S_FORMS = [r"%s\(p1, p2\)" % re.escape(SAT_ADD), r"%s\(p2, p1\)" % re.escape(SAT_ADD)]


def _is_max_fn(hb):
    """`fn max(x, y) { if x > y { x } else { y } }` (any of the four comparison spellings)"""
    from guards import guards_at
    if hb.arg_count != 2 or any(t for _, t in hb.calls()):
        return False
    got = {}
    for (bb, si, x) in hb.defs.get(0, []):
        if si == "term":
            return False
        e = strip_refs(hb.origin_rvalue(x))
        if e[0] != "param":
            return False
        conds = []
        for g in guards_at(hb, bb):
            if g[0] == "cmp2":
                a, c = strip_refs(g[2]), strip_refs(g[3])
                if a[0] == "param" and c[0] == "param":
                    conds.append((g[1], a[1], c[1]))
        got[e[1]] = conds
    if set(got) != {1, 2}:
        return False
    # returning x requires x >= y on that edge; returning y requires y >= x
    def ge(conds, me, other):
        return any((op in ("Gt", "Ge") and a == me and c == other) or (op in ("Lt", "Le") and a == other and c == me) for op, a, c in conds)
    return ge(got[1], 1, 2) and ge(got[2], 2, 1)


def rule_formula(ctx, rule="C12-formula"):
    F = ctx.F
    b = F.bodies.get(AG)
    ctx.need(rule, AG, "anchor", b is not None, "amortized_growth not found")
    if not b:
        return
    ctx.ob(rule, AG, "loop-free", not any(b.reachable(s) and bb in b.reachable(s) for bb in range(b.n) for s, _ in b.succ(bb)), how="loop-free body", detail="amortized_growth contains a loop")
    d = describe(b, b.origin_local(0))
    ok = False
    maxes = [MAX] + [p for p in F.bodies if p.rsplit("::", 1)[-1] == "max" and _is_max_fn(F.bodies[p])]   # std's max, or a local `const fn max` that is one
    for mx in maxes:
        for g in G_FORMS:
            for s in S_FORMS:
                if re.match(r"^%s\(%s, %s\)$" % (re.escape(mx), g, s), d) or re.match(r"^%s\(%s, %s\)$" % (re.escape(mx), s, g), d):
                    ok = True
    ctx.ob(rule, AG, "normal-form", ok, how="amortized_growth(len, add) = max(len + len/2, len + add), saturating: %s" % d,
           detail="growth rule is `%s`: not max(len*3/2, len+additional) — the property pins the new capacity to >= len + len/2 and <= max(that, required)" % d)
    # overflow-checked multiplications would panic instead of saturating: no Assert terminators
    from facts import static_int
    # (the range check of a shift by a literal amount is decided at compile time: not a panic path)
    asserts = [bb for bb in range(b.n) if b.term(bb)["k"] == "assert" and b.term(bb)["msg_kind"].startswith("overflow")
               and not (b.term(bb)["msg_kind"] in ("overflow:Shr", "overflow:Shl") and static_int(b, b.origin_operand(b.term(bb)["cond"])) is not None)]
    ctx.ob(rule, AG, "no-overflow-panic", not asserts, how="no overflow-checked arithmetic (saturating ops only)", detail="amortized_growth uses overflow-checked arithmetic: huge sizes panic instead of being rejected")


def rule_sites(ctx, rule="C12-sites"):
    F, cg = ctx.F, ctx.cg
    # (1) who applies the growth rule (through helpers), and to what
    want = {"repr::Repr::reserve": ["repr::Repr::len(p1)", "p2"],
            "repr::heap_buffer::HeapBuffer::with_additional": ["core::str::<impl str>::len(p1)", "p2"]}
    callers = {}
    for path, root in F.bodies.items():
        if path not in anchors(F) or root.j["kind"] == "closure":
            continue
        for st in inlined_sites(root, lambda nm: nm == AG):
            callers.setdefault(path, []).append(st)
    ctx.ob(rule, AG, "callers", set(callers) == set(want), how="growth rule applied in reserve (in-place) and with_additional (copy) only", detail="amortized_growth is applied from %s" % sorted(callers))
    for path, lst in callers.items():
        for st in lst:
            if path in want:
                args = [st.desc(0), st.desc(1)]
                ctx.ob(rule, path, "operands", args == want[path], how="amortized_growth(old length, additional)", line=st.line,
                       detail="growth rule applied to (%s): the base must be the old *length* and the amount the caller's `additional`" % ", ".join(args))
    # (2) growth sites of reserve (wherever the arms live)
    r = F.bodies.get("repr::Repr::reserve")
    if r:
        n = 0
        for st in inlined_sites(r, lambda nm: nm.startswith("repr::heap_buffer::HeapBuffer::")):
            nme = st.name
            if nme == "repr::heap_buffer::HeapBuffer::realloc":
                n += 1
                cap = st.desc(1)
                ctx.ob(rule, r.path, "realloc-capacity", cap == AG + "(repr::Repr::len(p1), p2)", line=st.line, how="realloc(amortized_growth(len, additional))", detail="in-place growth reallocates to %s" % cap)
            if nme == "repr::heap_buffer::HeapBuffer::with_additional":
                n += 1
                a = [st.desc(0), st.desc(1)]
                ok = a[0] in ("repr::heap_buffer::HeapBuffer::as_str(p1)", "repr::heap_buffer::HeapBuffer::as_str(repr::Repr::as_heap_buffer_mut(p1))", "repr::Repr::as_str(p1)", "repr::heap_buffer::HeapBuffer::as_str(repr::Repr::as_heap_buffer(p1))") and a[1] == "p2"
                ctx.ob(rule, r.path, "copy-growth-operands:" + st.label(), ok, line=st.line, how="with_additional(self's text, additional)", detail="growing copy made with_additional(%s)" % ", ".join(a))
            if nme in ("repr::heap_buffer::HeapBuffer::new", "repr::heap_buffer::HeapBuffer::with_capacity", "repr::heap_buffer::HeapBuffer::with_exact_capacity"):
                ctx.ob(rule, r.path, "exact-fit-in-reserve:" + st.label(), False, line=st.line, detail="reserve grows through %s (exact fit): n pushes cost O(n) reallocations" % nme)
        ctx.need(rule, r.path, "growth-sites", n >= 3, "reserve has %d growth sites (in-place + copies expected)" % n, how="%d growth sites" % n)
    # (2b) wherever else a buffer is reallocated in place (a new fast path, a pre-sizing helper), the
    # new capacity is the growth rule's; only shrink_to resizes to a requested size
    for path, root in F.bodies.items():
        if path not in anchors(F) or root.j["kind"] == "closure" or path == "repr::Repr::reserve" or path.startswith("repr::heap_buffer::HeapBuffer::realloc"):
            continue
        if "shrink" in path.rsplit("::", 1)[-1]:
            continue
        for st in inlined_sites(root, lambda nm: nm == "repr::heap_buffer::HeapBuffer::realloc"):
            cap = st.desc(1)
            ctx.ob(rule, path, "realloc-capacity=growth-rule:" + st.label(), re.match(r"^%s\(" % re.escape(AG), cap) is not None, line=st.line, how="realloc(amortized_growth(..))",
                   detail="%s grows a buffer in place to %s, not to the growth rule's capacity: repeated appends through this path reallocate every time" % (path, cap))
    # (3) with_additional sizes the block by the rule
    w = F.bodies.get("repr::heap_buffer::HeapBuffer::with_additional")
    if w:
        for bb, t in w.calls():
            if callee_name(t).endswith("HeapBuffer::allocate_ptr"):
                d = describe(w, w.origin_operand(t["args"][0]))
                ctx.ob(rule, w.path, "allocates-rule-capacity", d == "ok(repr::heap_buffer::internal::Capacity::new(%s(core::str::<impl str>::len(p1), p2)))" % AG, how="allocate_ptr(Capacity::new(amortized_growth(len(text), additional))?)",
                       detail="with_additional allocates capacity %s" % d)
    # (4) appends reach growth only through reserve
    rule_growth_via_reserve(ctx, rule)
    rule_reserve_amount(ctx, rule)


def rule_growth_via_reserve(ctx, rule="C12-sites"):
    """push_str / insert_str allocate only through Repr::reserve (which keeps a buffer that already has
    the room, and grows by the rule otherwise): any other allocating path - rebuilding the string
    from the text, an exact-fit constructor - reallocates within capacity or breaks the growth rule"""
    F, cg = ctx.F, ctx.cg
    for m in ("repr::Repr::push_str", "repr::Repr::insert_str"):
        b = F.bodies.get(m)
        if not b:
            continue
        seen, leaves, users, parent = cg.reach([m], follow=lambda e: e.target != "repr::Repr::reserve")
        heap = [s for s in seen if s.startswith("repr::heap_buffer::HeapBuffer::") and cg.may_allocate(s)]
        ctx.ob(rule, m, "growth-via-reserve", not heap, how="allocation reachable only through Repr::reserve", detail="%s reaches %s around reserve" % (m, heap[:3]))


def rule_reserve_amount(ctx, rule="C12-sites"):
    F = ctx.F
    for m in ("repr::Repr::push_str", "repr::Repr::insert_str"):
        b = F.bodies.get(m)
        if not b:
            continue
        rs = [bb for bb, t in b.calls() if callee_name(t) == "repr::Repr::reserve"]
        ctx.need(rule, m, "calls-reserve", len(rs) >= 1, "%s does not call reserve" % m, how="%d reserve call(s)" % len(rs))
        for bb in rs:
            a = describe(b, b.origin_operand(b.term(bb)["args"][1]))
            ctx.ob(rule, m, "reserve(len(string))", a in ("core::str::<impl str>::len(p2)", "core::str::<impl str>::len(p3)"), how="reserve(string.len()): exactly the bytes added", detail="%s reserves %s instead of the length of the inserted text" % (m, a))


def _ord(b, bb):
    t = b.term(bb)
    n = callee_name(t)
    return "%s#%d" % (n.rsplit("::", 1)[1], sum(1 for i in range(bb) if b.term(i)["k"] == "call" and callee_name(b.term(i)) == n))
