"""Property registry: which rules decide which property, and what each check claims."""
import r_moves, r_own, r_shrink, r_reach, r_layout, r_retain, r_num, r_index, r_growth, r_size, r_text, r_deleg, r_config, r_api

RULE_DOC = {
    "R1": "no buffer access through a handle after it gave up its reference",
    "R2": "every exit is reached owning the reference, or after the handle was overwritten",
    "R3": "a handle that owns a counted reference is never plainly overwritten",
    "P1": "an increment of the counter produces exactly one new handle",
    "P2": "releasing decrements are Release or stronger",
    "P3": "frees / in-place writes after a uniqueness test are ordered by an acquire",
    "P4": "only the Arc protocol's atomic operations touch the counter",
    "P5": "the result of every releasing decrement decides who frees: a handle is overwritten only after 'not last' or after the free",
    "DUP": "bitwise handle copies only after an increment",
    "R-contract": "unsafe-contract obligation discharged at every call site on every path",
    "R-erratomic": "no effect on the receiver precedes an Err exit",
    "U1": "no drop-less heap owner is live across user code",
    "U1P": "no drop-less heap owner is live across a failure panic",
    "OWN-exit": "raw Repr values are moved into an owner before return",
    "DROP": "the last handle releases its buffer",
    "C13-nogrowth": "shrinking never applies the growth rule",
    "U2": "user code inside a mutable-view window is covered by a guard whose Drop always publishes the length",
    "LAYOUT": "allocate / reallocate / release agree on the block's size function and the header records the sized capacity",
    "NULLCHK": "allocator results are null-tested before use and null maps to Err(ReserveError)",
    "C13-guard": "shrink_to changes the buffer only towards the requested, smaller capacity",
    "C08-noalloc": "no allocation site reachable from a clone path",
    "C08-leaves": "clone paths end in core::* or dealloc only",
    "C08-nouser": "no user-code edge on a clone path",
    "C08-nocopy": "no text copy reachable from a clone path",
    "C08-bitwise": "the clone is a bitwise read of the receiver",
    "C09-gate": "allocating calls sit behind the exact inline threshold (or a heap guard)",
    "C09-onlygate": "nothing outside the heap-buffer module allocates directly",
    "C09-inline": "edits of an inline string reach no allocation outside the guarded gate",
    "C09-onealloc": "one allocation, capacity = length",
    "C09-funnel": "constructors reach the allocator only through the gates",
    "C10-noalloc": "from_static_str cannot allocate", "C10-gate": "borrow/copy decision at the exact threshold",
    "C10-borrow": "the stored pointer is the caller's", "C10-static-noalloc": "static strings: no allocation on read/shrink paths",
    "C10-static-nowrite": "static strings: no write primitive / mutable view on read/shrink paths",
    "C10-static-stays": "static strings stay borrowed or become inline", "C10-mutptr": "*mut from the storage pointer only under a heap guard",
    "C11-cap": "capacity() reports the room the write path uses", "C11-reserve": "reserve: Ok => exclusive; within capacity => no allocation, no move",
    "T6-clone": "clone_from replaces the target by the shallow clone of the source on every path; clone() is the shallow clone",
    "C10-clone": "clone_from between borrowed handles takes the source's (pointer, length) on every path",
    "C08-clone_from": "clone_from replaces the target by the shallow clone of the source on every path",
    "R-panicatomic": "no effect on a pre-existing receiver precedes the panic taken when allocation fails (iterator-driven operations: between items)",
    "C13-lands": "realloc returns Ok only after recording the requested capacity",
    "C11-lands": "realloc returns Ok only after recording the requested capacity",
    "ENGINE": "a rule could not be evaluated (fail closed)",
    "T7-moves": "byte moves of push_str / insert_str / remove / pop and the copying constructors have the prescribed affine source, destination and count",
    "C18-inplace": "Extend impls append each item to the target itself and never assign it as a whole",
    "C11-wrap": "public wrappers pass their storage-layer operation on every path, argument unchanged",
    "C12-wrap": "public wrappers pass their storage-layer operation on every path, argument unchanged",
    "C13-wrap": "public wrappers pass their storage-layer operation on every path, argument unchanged",
    "T8-wrap": "public wrappers pass their storage-layer operation on every path, argument unchanged",
    "C16-items": "collecting impls append every element before requesting the next",
    "C18-items": "collecting impls append every element before requesting the next",
    "C12-lands": "realloc returns Ok only after recording the requested capacity",
    "T9-retain": "retain writes back exactly the chars the predicate accepted, cursors advance by the char width",
    "T10-views": "len / is_empty / as_str / as_bytes are the storage views; is_empty = (len() == 0)",
    "C18-wrap": "public wrappers pass their storage-layer operation on every path, argument unchanged",
    "C20-taint": "caller-supplied sizes reach only checked / saturating arithmetic (no profile-dependent overflow)",
    "C11-append": "push_str / insert_str allocate only through reserve",
    "C10-lenword": "length words round-trip and carry the marker in the last memory byte (this target's byte order)",
    "C16-lenword": "length words round-trip and carry the marker in the last memory byte (this target's byte order)",
    "C03-room": "reserve returns Ok only with capacity >= len + additional (what later writes rely on)",
    "C19-text": "as_str() / len() (what the wrappers serialize) decode the stored text for every tag byte and length word",
    "T1-tags": "tag bytes: writers, readers and the length decoding agree for every value",
    "R1-stale": "no pointer into the text survives a call that may free or move the buffer",
    "C03-realloc": "every realloc call site asks for at least the current length",
    "C13-realloc": "every realloc call site asks for at least the current length (shrinking never cuts the text)",
    "C05-trynopanic": "no try_* entry point reaches the message panic",
    "LENSLOT": "32-bit: the on-heap length slot exists for every capacity above MAX_LEN and is written whenever the length word is the sentinel",
    "C09-presize": "decoding constructors pre-size with the number of input units (a lower bound of the length)",
    "C10-ctor": "StaticBuffer / TextLen / Capacity values are built only behind their bound",
    "C11-inplace": "Extend appends into the receiver's own buffer",
    "C20-views": "len / is_empty / as_str / as_bytes are the storage views on every target",
    "C13-pair": "plain form = try form + the message panic",
    "C11-fmt": "fmt::Write for LeanString is push_str / push",
    "C11-ops": "Add / AddAssign append to the left operand through push_str",
    "C05-errsink": "where no ReserveError can be returned, it reaches the message panic",
    "T11-items": "collecting impls append every element before requesting the next, from one polling site",
    "C10-tags": "inline tag writers / readers agree (the static-to-inline move uses them)",
    "NOSTATE": "the crate keeps no state between calls",
    "C06-shrink": "shrink_to changes the buffer only towards a smaller capacity (a large bound is a no-op)",
    "C06-growth": "the growth rule never returns less than len + additional",
    "C03-moves": "byte moves stay inside the text / the block",
    "C11-sites": "growth sites use the rule on (length, additional)",
    "C09-hint": "size hints are reserved only for char items, lower bound only",
    "C12-hint": "size hints are reserved only for char items, lower bound only",
    "C10-empty": "an empty append returns before reserve",
    "C18-noguard": "collecting impls keep no guard that undoes appends on unwind",
    "C05-items": "collecting impls poll the iterator on every path and append every element",
    "C05-ops": "Add / AddAssign append to the left operand in place",
    "C20-serde": "serde / arbitrary impls are complete in every feature set that has them",
    "C20-pair": "plain form = try form + the message panic (in debug and release alike)",
    "C11-ownalloc": "nothing outside the heap-buffer module allocates directly", "C06-ownalloc": "nothing outside the heap-buffer module allocates directly",
    "C11-views": "len / is_empty / capacity / as_str / as_bytes are the storage views", "C13-views": "len / is_empty / capacity / as_str / as_bytes are the storage views",
    "C10-wrap": "public wrappers pass their storage-layer operation on every path, argument unchanged",
    "C10-retain": "retain: one predicate site, write-back on the kept edge, cursors advance by the char's width", "C18-retain": "retain: one predicate site, write-back on the kept edge, cursors advance by the char's width",
    "C12-fmt": "fmt::Write for LeanString is push_str / push", "C12-ops": "Add / AddAssign append to the left operand in place",
    "T12-inplace": "the storage-layer mutators edit the receiver's own storage",
    "C05-errused": "no Result<_, ReserveError> is discarded",
    "C05-ownalloc": "nothing outside the heap-buffer module allocates directly",
    "C06-pair": "plain form = try form + the message panic",
    "C09-wrap": "public wrappers pass their storage-layer operation on every path, argument unchanged",
    "FLOOR": "instance floor (fail closed)",
    "BUILD": "configuration builds",
    "unclassified": "construct the rule tables do not know",
}


def rules_C03(ctx):
    ctx.take_ts(["R2", "R3", "P1", "P5", "DUP", "R-contract.dealloc", "R-contract.released-last", "unclassified", "solver"])
    r_own.rule_drop_releases(ctx)
    r_own.rule_raw_leak(ctx)
    r_own.rule_U1(ctx, include_panic=False, rule="U1")
    r_layout.rule_layout_agreement(ctx)
    r_layout.rule_slot_decision(ctx)
    r_layout.rule_len_slot(ctx)
    r_layout.rule_null_checks(ctx)
    # "no access outside the block": writes are sized by what reserve promised
    r_layout.rule_reserve_post(ctx, rule="C03-room")
    r_own.rule_stale_views(ctx)
    r_moves.realloc_sites_keep_text(ctx, "C03-realloc")
    # no read or write outside the text / the block: the byte moves have the prescribed source, destination and count
    r_moves.rule_moves(ctx, rule="C03-moves")
    r_api.rule_ownership_primitives(ctx)


def rules_C04(ctx):
    # a buffer another thread still reads is neither freed early nor kept forever: the counter equals
    # the number of handles (every handle's Drop gives its reference back)
    ctx.take_ts(["R2", "R3", "P1", "DUP"])
    r_own.rule_drop_releases(ctx)
    ctx.take_ts(["R1", "P2", "P3", "P4", "P5", "unclassified", "solver"])
    # a write into a buffer other handles (threads) can read is a data race: writes require proved uniqueness
    ctx.take_ts(["R-contract.Modifiable", "R-contract.Unique", "R-contract.realloc", "R-contract.set_len", "R-contract.write"])
    # the free is ordered after every other owner's last access (acquire after the last decrement)
    ctx.take_ts(["R-contract.dealloc", "R-contract.released-last"])
    r_own.rule_stale_views(ctx)
    r_api.rule_send_sync(ctx)
    r_api.rule_atomics_syntactic(ctx)
    r_api.rule_witnesses(ctx)


def rules_C05(ctx):
    ctx.take_ts(["R-erratomic", "R-panicatomic", "R2", "unclassified", "solver"])
    r_own.rule_U1(ctx, include_panic=True, rule="U1P")
    r_layout.rule_null_checks(ctx)
    r_api.rule_pairing(ctx)
    # every allocation the crate makes can be refused and reported: nothing allocates through
    # String / Vec / Box (which abort) outside the heap-buffer module
    r_reach.rule_C09_no_other_alloc(ctx, rule="C05-ownalloc")
    r_api.rule_errors_not_dropped(ctx)
    r_api.rule_try_never_panics_on_alloc(ctx)
    r_api.rule_error_reaches_panic(ctx)
    # a refused pre-sizing hint is ignored, not turned into "nothing was appended"
    r_retain.rule_items_appended(ctx, rule="C05-items", traits=("core::iter::traits::collect::FromIterator", "core::iter::traits::collect::Extend"))
    # the operators append in place: the left operand is never moved out and put back around a call that can panic
    r_deleg.rule_operator_appends(ctx, rule="C05-ops")
    # every integer / float / bool / char / String arm of try_to_lean_string uses the fallible storage
    # constructor (a missing arm falls back to fmt::Write, whose write_str is the panicking push_str)
    r_num.rule_dispatch(ctx)


def rules_C02(ctx):
    ctx.take_ts(["R-contract.Modifiable", "R-contract.Unique", "R-contract.realloc", "R-contract.set_len", "R-contract.write", "unclassified", "solver"])
    # uniqueness probes license in-place writes only if the counter equals the number of handles:
    # the counter-balance rules are necessary conditions of isolation
    ctx.take_ts(["R2", "R3", "P1", "DUP"])
    # the other handles keep reading their text: the buffer is freed or moved only by its last owner
    ctx.take_ts(["R-contract.dealloc", "R-contract.released-last", "R1"])
    r_own.rule_stale_views(ctx)
    r_api.rule_api_surface(ctx)
    r_api.rule_mut_views(ctx)
    r_api.rule_witnesses(ctx)


def rules_C13(ctx):
    r_shrink.rule_no_growth_in_shrink(ctx)
    r_shrink.rule_shrink_guards(ctx)
    r_shrink.rule_realloc_lands(ctx)
    r_api.rule_wrappers_delegate(ctx, rule="C13-wrap", only=("try_shrink_to", "try_shrink_to_fit"))
    # "keeps the text": a shrink that fails has not touched the string
    ctx.take_ts(["R-erratomic", "R2"], fn_filter=lambda fn: "shrink" in fn)
    r_layout.rule_capacity_roots(ctx)
    r_moves.realloc_sites_keep_text(ctx, "C13-realloc")
    # the plain forms are the try_ forms plus the message panic: no fallback to another request
    r_api.rule_pairing(ctx, rule="C13-pair")
    # an in-place shrink hands the allocator the size of the whole block (header, slot, text)
    r_layout.rule_layout_agreement(ctx)
    r_layout.rule_len_slot(ctx)
    # capacity() reports what the storage layer records
    r_deleg.rule_views(ctx, rule="C13-views")


def rules_C11(ctx):
    r_layout.rule_capacity_agreement(ctx)
    r_layout.rule_size_hint_use(ctx)
    r_layout.rule_capacity_roots(ctx)
    r_layout.rule_reserve_post(ctx)
    r_layout.rule_layout_agreement(ctx)
    r_shrink.rule_realloc_lands(ctx, rule="C11-lands")
    # within capacity nothing allocates: the appends reach the allocator only through reserve
    r_growth.rule_growth_via_reserve(ctx, rule="C11-append")
    # extend appends into the target's own buffer (adopting a piece's buffer drops the reserved one)
    r_retain.rule_extend_inplace(ctx, rule="C11-inplace")
    # the formatting and operator front ends are the appends themselves (no checkpoint copy, no rebuilt result)
    r_deleg.rule_C15(ctx, rule="C11-fmt")
    r_deleg.rule_operator_appends(ctx, rule="C11-ops")
    # the counter is given back by every Drop (a handle that forgets to release makes the survivors
    # look shared for ever: their appends within capacity then reallocate)
    r_own.rule_drop_releases(ctx)
    # the private copy made for a shared buffer has room for len + additional as well
    r_growth.rule_sites(ctx, rule="C11-sites")
    # "owns its storage exclusively" is judged from the reference count: it has to equal the number of handles
    ctx.take_ts(["R2", "R3", "P1", "DUP"])
    # the public reserve / with_capacity / appends reach the storage layer's operation on every path
    r_api.rule_wrappers_delegate(ctx, rule="C11-wrap", only=("try_reserve", "try_with_capacity", "try_push_str", "try_push", "try_insert_str", "try_insert"))
    # nothing outside the heap-buffer module allocates (a scratch String behind an append allocates
    # although the text fits the capacity); capacity() is the storage layer's
    r_reach.rule_C09_no_other_alloc(ctx, rule="C11-ownalloc")
    r_deleg.rule_views(ctx, rule="C11-views")


def rules_C18(ctx):
    r_own.rule_U1(ctx, include_panic=False, rule="U1")
    r_retain.rule_U2(ctx)
    r_retain.rule_extend_inplace(ctx)
    # the predicate runs inside Repr::retain (whose guard publishes what was kept), for every storage state
    r_api.rule_wrappers_delegate(ctx, rule="C18-wrap", only=("try_retain",))
    r_retain.rule_items_appended(ctx, rule="C18-items", traits=("core::iter::traits::collect::FromIterator", "core::iter::traits::collect::Extend"))
    r_own.rule_no_hidden_state(ctx)
    r_retain.rule_no_rollback_guards(ctx)
    r_moves.rule_retain_loop(ctx, rule="C18-retain")


def rules_C01(ctx):
    r_text.rule_T1(ctx)
    r_text.rule_len_words(ctx)
    r_layout.rule_len_slot(ctx)
    ctx.take_ts(["R-contract.kind="])
    # writes go only to exclusively owned storage: otherwise an edit of one handle changes what the
    # handles sharing its buffer read back
    ctx.take_ts(["R-contract.Modifiable", "R-contract.Unique", "R-contract.realloc", "R-contract.set_len", "R-contract.write"])
    r_text.rule_T3(ctx)
    r_text.rule_T4(ctx)
    r_text.rule_T5(ctx)
    # String::clone_from leaves the target equal to the source, whatever the two handles share
    r_reach.rule_clone_replaces(ctx, rule="T6-clone")
    # the bytes moved by the mutators and copied by the constructors are the right ones (affine forms)
    r_moves.rule_moves(ctx)
    r_moves.rule_retain_loop(ctx)
    r_moves.rule_mutators_in_place(ctx)
    # the collecting impls take every element once, in order, and stop at the first None
    r_retain.rule_items_appended(ctx, rule="T11-items", traits=("core::iter::traits::collect::FromIterator", "core::iter::traits::collect::Extend"))
    r_own.rule_no_hidden_state(ctx)
    # len / is_empty / as_str / as_bytes are the storage layer's views; is_empty is len() == 0
    r_deleg.rule_views(ctx, rule="T10-views")
    r_api.rule_wrappers_delegate(ctx, rule="T8-wrap")


def rules_C06(ctx):
    r_size.rule_checked_ctors(ctx)
    r_size.rule_size_taint(ctx)
    r_size.rule_layout_checked(ctx)
    r_size.rule_room(ctx)
    # reserve(additional) really provides len + additional before Ok (no inline result unless it fits)
    r_layout.rule_reserve_post(ctx)
    ctx.take_ts(["R-erratomic", "R2"])
    r_layout.rule_null_checks(ctx)
    # a refused size is an Err / the documented panic message - never an abort or another panic
    r_api.rule_pairing(ctx, rule="C06-pair")
    # a bound at or above the current capacity is a no-op, whatever its size; and what the growth
    # rule hands out is never below what was asked for
    r_shrink.rule_shrink_guards(ctx, rule="C06-shrink")
    r_growth.rule_formula(ctx, rule="C06-growth")
    r_layout.rule_len_slot(ctx)
    # nothing allocates through an infallible std container (a lying size hint would abort), and a
    # constructor allocates what it was asked for or refuses - no clamping
    r_reach.rule_C09_no_other_alloc(ctx, rule="C06-ownalloc")
    r_layout.rule_capacity_roots(ctx)


def rules_C07(ctx):
    r_index.rule_validate_before_mutate(ctx)
    r_index.rule_wrappers(ctx)
    r_index.rule_unchecked_utf8(ctx)


def rules_C12(ctx):
    r_growth.rule_formula(ctx)
    r_growth.rule_sites(ctx)
    # the capacity the rule computed is the capacity allocated: realloc(n) records exactly n, the
    # constructors allocate exactly what they are asked for (no padding on top of the rule)
    r_shrink.rule_realloc_lands(ctx, rule="C12-lands")
    r_layout.rule_capacity_roots(ctx)
    r_api.rule_wrappers_delegate(ctx, rule="C12-wrap", only=("try_reserve", "try_push_str", "try_push", "try_insert_str", "try_insert"))
    r_layout.rule_size_hint_use(ctx, rule="C12-hint")
    # the formatting and operator front ends are the appends themselves (no reservation policy of their own)
    r_deleg.rule_C15(ctx, rule="C12-fmt")
    r_deleg.rule_operator_appends(ctx, rule="C12-ops")


def rules_C14(ctx):
    r_num.rule_digit_tables(ctx)
    r_num.rule_dispatch(ctx, want=[x for x in r_num.EXPECT if x not in ("bool", "char", "alloc::string::String", "LeanString", "f32", "f64")])
    r_num.rule_into_repr(ctx)


def rules_C15(ctx):
    r_num.rule_dispatch(ctx, want=["bool", "char", "alloc::string::String", "LeanString", "f32", "f64"])
    r_deleg.rule_C15(ctx)
    r_num.rule_into_repr(ctx)


def rules_C16(ctx):
    r_deleg.rule_C16(ctx)
    # the constructors hand the decoded text to the storage layer: its length must be storable for
    # every length (the checked Capacity / TextLen constructors and their bounds, per target)
    r_size.rule_checked_ctors(ctx)
    # from_utf16_lossy collects through FromIterator<char>: every decoded char is appended
    r_retain.rule_items_appended(ctx)
    r_text.rule_len_words(ctx, rule="C16-lenword")
    r_text.rule_T4(ctx)


def rules_C17(ctx):
    r_deleg.rule_C17(ctx)


def rules_C19(ctx):
    r_deleg.rule_C19(ctx)
    # the wrappers hand `as_str()` / `len()` to the format: what those return is the stored text
    r_text.rule_T1(ctx, rule="C19-text")
    r_config.rule_cargo_features(ctx)


def rules_C20(ctx):
    r_text.rule_niche(ctx)
    r_text.rule_T1(ctx)
    r_text.rule_len_words(ctx)
    r_text.rule_T5(ctx)
    r_config.rule_debug_regions(ctx)
    r_config.rule_unchecked_sites(ctx)
    r_config.rule_cargo_features(ctx)
    # overflow-checked arithmetic on caller-supplied sizes panics in debug builds and wraps in
    # release builds: sizes only go through checked_* / saturating_* operations
    r_size.rule_size_taint(ctx, rule="C20-taint")
    # the code that exists only on 32-bit targets (length slot, allocation limit) agrees with itself:
    # the same operations behave the same on every pointer width only if it does
    r_layout.rule_layout_agreement(ctx)
    r_layout.rule_slot_decision(ctx)
    r_layout.rule_len_slot(ctx)
    # ... and the views mean the same on every target: is_empty is len() == 0, not a per-target shortcut
    r_deleg.rule_views(ctx, rule="C20-views")
    # the optional impls are the same whatever else is enabled (serde without std still takes byte
    # strings), and the plain forms fail the same way in debug and release builds
    r_deleg.rule_C19(ctx, rule="C20-serde")
    r_api.rule_pairing(ctx, rule="C20-pair")


def rules_C08(ctx):
    r_reach.rule_C08(ctx)
    # to_lean_string on a LeanString is the shallow clone, whatever the storage
    r_num.rule_dispatch(ctx, want=["LeanString"])
    ctx.take_ts(["P1", "DUP"])
    # dropping one copy leaves the other intact: only the last owner frees, after an acquire
    ctx.take_ts(["P3", "P5", "R-contract.dealloc", "R-contract.released-last", "R1", "R2", "R3"])
    # the clone and the original read the same bytes for as long as they share: nothing writes to a
    # shared buffer (or its length slot), and the counter is only touched atomically
    ctx.take_ts(["P2", "P4", "R-contract.Modifiable", "R-contract.Unique", "R-contract.set_len", "R-contract.write"])
    r_api.rule_atomics_syntactic(ctx)


def rules_C09(ctx):
    r_reach.rules_C09(ctx)
    # the amount handed to reserve is the real growth (an inflated amount spills inline text to the heap)
    r_growth.rule_reserve_amount(ctx)
    r_api.rule_wrappers_delegate(ctx, rule="C09-wrap", only=("try_push", "try_push_str", "try_insert", "try_insert_str", "try_with_capacity", "try_reserve"))
    r_layout.rule_capacity_roots(ctx)
    r_deleg.rule_presize(ctx)
    r_layout.rule_size_hint_use(ctx, rule="C09-hint")
    # integers: the requested capacity is exactly the digit count (C14 proves digit count = text length)
    r_num.rule_into_repr(ctx)


def rules_C10(ctx):
    r_reach.rule_C10(ctx)
    # two handles borrowing the same static text can differ in length: assigning one to the other
    # takes the source's (pointer, length) pair on every path
    r_reach.rule_clone_replaces(ctx, rule="C10-clone")
    # the borrowed length survives truncate / pop / clear on every byte order
    r_text.rule_len_words(ctx, rule="C10-lenword")
    # the first growing operation moves a static handle to storage that really has the room
    r_layout.rule_reserve_post(ctx)
    # a borrowed length that does not fit the length word is refused, on every target
    r_size.rule_checked_ctors(ctx, rule="C10-ctor")
    # a static text that moves into the handle (reserve / ensure_modifiable on a short static string)
    # goes through the audited inline writers: a full inline buffer has no tag byte to write
    r_text.rule_T1(ctx, rule="C10-tags")
    r_text.rule_T5(ctx)
    # appending nothing writes nothing: the empty append returns before the storage is made writable
    r_reach.rule_empty_append(ctx)
    # the public wrappers add no storage effect of their own (no "inline if it fits" pre-step that
    # copies a borrowed text), and retain asks / copies like String's
    r_api.rule_wrappers_delegate(ctx, rule="C10-wrap")
    r_moves.rule_retain_loop(ctx, rule="C10-retain")


PROPS = {
    "C01": {"rules": rules_C01, "level": "other",
            "explanation": "Five structural necessary conditions of 'reads back what was written, whatever the storage' (the behavioural equivalence with String itself is a value-level statement and is NOT decided): T1 writer/reader agreement on the tag byte - compiler-evaluated TextLen::TAG / StaticBuffer::TAG last memory byte (target endianness) = LastByte::HeapMarker / StaticMarker discriminants, inline tag = len|0xC0 at byte MAX_INLINE_SIZE-1 in new/empty/set_len, is_heap_buffer/is_static_buffer summaries true exactly for their kind, len/as_bytes decode with the same constants, tag ordering text < inline < heap < static; T2 every storage view cast is taken under the matching kind guard (typestate); T3 in every body that takes a mutable view (push_str, insert_str, remove, retain, 10 integer writers) set_len or the publishing guard lies on every path from each write to return; T4 every InlineBuffer::new call site is dominated by a proof that the text fits; T5 InlineBuffer::set_len writes the tag byte only when len < MAX_INLINE_SIZE. T6 clone_from passes replace_inner(self, shallow clone of source) on every path (handles sharing a buffer or a static text can differ in length) and clone() is the shallow clone. T7 the bytes moved by push_str / insert_str / remove / pop and copied by the buffer constructors are the right ones: every write primitive (ptr::copy, copy_from_slice, copy_within, pointer-method forms, through private helpers and closures) is lifted to a symbolic move whose source offset, destination offset and byte count are affine forms over len(self), the index argument, len(text) and the removed char's width, compared by coefficient with the forms String's algorithm prescribes (off-by-one counts, shifted destinations, stale published lengths all change a form); the inline length decoding of Repr::len is evaluated for every byte an inline string can end in. T8 every public try_* method passes its storage-layer operation on every path with the caller's argument unchanged."},
    "C06": {"rules": rules_C06, "level": "other",
            "explanation": "Checked constructors: Capacity / TextLen / StaticBuffer values are built only inside their `new`, behind `size <= MAX_LEN` with MAX_LEN evaluated for the target (2^56-1 on 64-bit); with that bound the unchecked header+capacity sum of realloc cannot wrap (constant arithmetic; on 32-bit the ALLOC_LIMIT edge must dominate realloc). Size taint: values derived from the public capacity/additional/min_capacity parameters and from size_hint lower bounds, propagated through local calls, reach only checked_*/saturating_* operations and the bound-checked constructors - never raw +,*,<<,- or wrapping_*/unchecked_* calls. The layout computation is checked_add + Layout::from_size_align; allocator results are null-tested and map to Err; every Err exit is effect-free (R-erratomic, R2)."},
    "C07": {"rules": rules_C07, "level": "other",
            "explanation": "Validate-before-mutate as a dominance property of Repr::{remove, insert_str, truncate}: every effect on the receiver (a local call taking &mut of the handle, a store through it) is dominated by the passing edge of `self.as_str().is_char_boundary(idx)` on the index parameter (and of `idx < len` for remove, `new_len < len` for truncate) - the predicates under which String's methods do not panic - and no explicit panic is reachable after an effect, so a rejected index has touched nothing. Public wrappers have no effect of their own and forward the index unchanged. Unchecked UTF-8 views occur only in the audited set; bytes copied into storage come from &str arguments."},
    "C12": {"rules": rules_C12, "level": "other",
            "explanation": "The growth rule's loop-free MIR is lifted to an expression and must normalise to max(G(len), len +sat additional) with G one of the spellings arithmetically equal to len + floor(len/2) (saturating, no overflow panic) - the property pins the value, so any other expression is a behavioural change. Every growth site applies it to (old LENGTH, caller's additional): reserve's in-place realloc takes amortized_growth(len(self), additional), all growing copies go through with_additional(self's text, additional), which allocates Capacity::new(amortized_growth(len(text), additional)); no exact-fit constructor is used to grow; push_str/insert_str reach allocation only through reserve(string.len())."},
    "C14": {"rules": rules_C14, "level": "proof",
            "explanation": "Digit-count tables decided for ALL values: each DigitCount::digit_count body is a loop-free comparison DAG; path enumeration with an interval for the parameter yields the exact partition of the type's range, which must cover the type, never fall through to `unreachable`, and give len(to_string()) at both endpoints of every sign-homogeneous interval (decimal width is monotone in |x|) - Python big integers, no sampling. usize/isize delegate through a lossless cast to the width-matching table. Dispatch: each of the 24 integer/NonZero castaway arms calls Repr::from_num::<X> on its own cast value. Writer consistency: digit_count(self) feeds with_capacity, and set_len; the work-type cast is lossless; LUT = 00..99; thresholds/divisors 10^4, 10^2, 10; 128-bit and NonZero forms delegate (itoa / get().into_repr()). The buffer the digits are written into is with_capacity(digit_count(self)) or, per target, the empty inline buffer only when every value of the type fits the inline capacity of that target (arms cut off by size_of comparisons are pruned)."},
    "C08": {"rules": rules_C08, "level": "proof",
            "explanation": "Call-graph proof over the resolved program: from Clone::clone, Clone::clone_from, From<&LeanString>::from and Repr::make_shallow_clone no allocation site, no copy primitive, no heap constructor and no user-code edge is reachable (leaves are core::* and alloc::alloc::dealloc only, no unresolved edge), the value returned by make_shallow_clone is core::ptr::read(self) on every path, and on the heap edge exactly one increment precedes that read (typestate P1/DUP). Holds for all lengths and storage states."},
    "C09": {"rules": rules_C09, "level": "other",
            "explanation": "Every call from outside the heap-buffer module into an allocating heap-buffer function is dominated by the exact inline threshold edge (quantity > MAX_INLINE_SIZE evaluated for the target, on the right quantity: len(text) / capacity / len+additional / max(len,min)) or by a kind=Heap guard; no other body allocates directly; all constructors reach the allocator only through those gates; under the assumption kind=Inline the shrinking edits reach no allocation and the growing ones only the guarded gate; HeapBuffer::new performs exactly one allocation with capacity = len(text)."},
    "C10": {"rules": rules_C10, "level": "other",
            "explanation": "from_static_str reaches no allocation site and copies text only via InlineBuffer::new behind len <= MAX_INLINE_SIZE; StaticBuffer::new stores the caller's pointer; under the assumption kind=Static (typestate walk with edge refinement) clone/pop/truncate/clear/shrink_to/len/capacity/as_bytes reach no allocation and no write primitive or mutable view and stay static-or-inline; every write-capable call site excludes kind=Static (R-contract); *mut pointers are derived from the storage pointer only under a heap guard. clone_from between borrowed handles takes the source (pointer, length) pair on every path."},
    "C02": {"rules": rules_C02, "level": "other",
            "explanation": "Typestate analysis over MIR of every function that can reach a write into string storage: at each call of as_slice_mut / as_str_mut / Repr::set_len / HeapBuffer::realloc / HeapBuffer::set_len, every abstract state (storage kind x uniqueness x reference state) reaching the call on any path satisfies the callee's unsafe contract (not static, heap => proved unique). Callee summaries (reserve, ensure_modifiable, replace_inner, is_unique ...) are computed from their bodies, not assumed; debug assertions never discharge an obligation."},
    "C03": {"rules": rules_C03, "level": "other",
            "explanation": "Reference-count protocol as a typestate over all CFG paths incl. Err and unwind exits (R2 balanced exits, R3 no overwrite of a counted handle, P1/DUP increments pair with bitwise copies, dealloc only at last-reference+acquire or sole owner), plus ownership dataflow for drop-less raw Repr values (moved into an owner before return, never live across user code) and Drop-for-LeanString must-release. P5: a handle is overwritten only after its releasing decrement was examined and said not-last, or after the free (an unexamined or ignored result leaks the buffer when the other owners go first). The same rules run through Drop bodies of local guard types and through helpers that take the raw buffer pointer."},
    "C04": {"rules": rules_C04, "level": "other",
            "explanation": "Schedule-free path rules: R1 no access to the buffer through a handle after its releasing decrement (any interleaving may free/realloc it then), P2 decrements are Release+, P3 uniqueness probes / rollbacks / frees are acquire-ordered, P4 no other atomic operation on the counter. Holding on all CFG paths implies holding under every schedule and every C11-permitted reordering of those atomics. P5 (a decrement whose result is not examined cannot decide who frees) and the dealloc contract (last reference + acquire fence, in every feature configuration: arms cut off by cfg!(feature = ..) are pruned per configuration) are part of the check."},
    "C05": {"rules": rules_C05, "level": "other",
            "explanation": "Failure atomicity as a path property: for every function with a string receiver that returns Result<_, ReserveError>, every abstract state reaching an Err return has had no effect on the receiver (no length/field write, no value-changing reassignment, reference count balanced); no drop-less heap owner is live across unwrap_with_msg (the panic taken when allocation fails). R-panicatomic: at every exported function taking the string by &mut, each abstract state that reaches the allocation-failure panic (the unwrap helper called on a Result not known to be Ok, also inside callees) has had no effect on the receiver since entry - or, for iterator-driven operations, since the last Iterator::next (they may stop between items)."},
    "C11": {"rules": rules_C11, "level": "other",
            "explanation": "Reader/writer agreement on the capacity word: HeapBuffer::capacity reads header().capacity; Header values are written only next to the allocator call with the very capacity the block was sized with; Repr::capacity and the mutable slice of as_slice_mut agree arm by arm (heap: HeapBuffer::capacity, inline: MAX_INLINE_SIZE = size of the inline array); reserve's computed summary: every Ok exit owns its storage exclusively; within-capacity fast paths (unique heap with capacity >= len+additional, inline within the limit) reach no allocation and no reassignment; realloc happens only behind capacity < needed and to amortized_growth(len, additional). HeapBuffer::realloc returns Ok only after the new capacity was recorded (fresh Header written with Capacity::new(new_capacity), or replacement by a buffer allocated with it)."},
    "C13": {"rules": rules_C13, "level": "other",
            "explanation": "The growth rule (amortized_growth) is unreachable from Repr::shrink_to; every buffer-changing call in shrink_to is dominated by the edge max(len, min_capacity) < old capacity and sized with exactly max(len, min_capacity); the heap-to-inline conversion sits behind max(len, min) <= MAX_INLINE_SIZE; non-heap receivers return Ok untouched (typestate walk); the bytes copied are the receiver's own text. HeapBuffer::realloc returns Ok only after recording the requested capacity (no fast path that keeps the old one), so a shrink lands on the request."},
    "C15": {"rules": rules_C15, "level": "other",
            "explanation": "Dispatch arms of try_to_lean_string: &bool -> Repr::from_bool, &char -> Repr::from_char, &String -> Repr::from_str(s.as_str()), &LeanString -> Clone::clone, &f32/&f64 -> from_num -> Repr::from_str(ryu::Buffer::format(x)) (format, not format_finite: NaN/inf handled), each on its own cast value; generic fallback formats into LeanString::new() through fmt::Write whose only override is write_str = push_str; Ok(()); `?` maps fmt::Error through From -> Fmt and ReserveError -> Reserve (bodies build exactly that variant); from_bool's compiler-evaluated TRUE/FALSE constants are the inline encodings of \"true\"/\"false\" selected on the right edges; from_char encodes with encode_utf8. The outputs of ryu/itoa/Display themselves are trusted library behaviour, not decided."},
    "C16": {"rules": rules_C16, "level": "other",
            "explanation": "Agreement with std by shared delegation: from_utf8 = LeanString::from(core::str::from_utf8(buf)?) with core's error propagated unchanged; from_utf8_lossy iterates buf.utf8_chunks(), appends chunk.valid() and pushes U+FFFD exactly on the edge !chunk.invalid().is_empty(), valid part first; from_utf16 pushes every Ok item of char::decode_utf16(buf.iter().copied()) and returns Err(FromUtf16Error) on the decoder's first Err; from_utf16_lossy = decode.map(|r| r.unwrap_or(U+FFFD)).collect::<LeanString>(); none of the four compares or computes on an input unit itself, so every decoding decision is core's (the same routines String's constructors use). Loops may be `for`, `while let` or closures given to for_each / try_for_each: the element is the canonical item(iterator) in every form. The decoded text is handed to the storage layer, whose checked length / capacity constructors and bounds are judged per target (32-bit: MAX_LEN stays below the on-heap-length sentinel)."},
    "C17": {"rules": rules_C17, "level": "other",
            "explanation": "Every impl of PartialEq/Eq/PartialOrd/Ord/Hash/Display/Debug/Deref/AsRef/Borrow involving LeanString (enumerated from the compiler's impl table, incl. feature-gated AsRef<OsStr>) has a single-expression body that delegates to the same method of str on as_str() of each LeanString argument and nothing else (no field projection, pointer or capacity comparison, no second return path); partial_cmp = Some(cmp); PartialEq exists in both directions for str, &str, String, Cow<str>; Eq/Ord/Hash/Borrow<str> present; no derived structural impl; as_str/as_bytes/len/is_empty are the Repr views."},
    "C19": {"rules": rules_C19, "level": "other",
            "explanation": "With the features on (all-features configuration): Serialize = <str as Serialize>::serialize(as_str(self), s); Deserialize = deserialize_string(visitor); the visitor has visit_str / visit_borrowed_str (LeanString::from(v)) and visit_bytes / visit_borrowed_bytes (core::str::from_utf8(v): Ok -> from(s), Err -> invalid_value(Unexpected::Bytes(v))), no unchecked/lossy call; Arbitrary::{arbitrary, arbitrary_take_rest, size_hint} = the <&str as Arbitrary> method of the same name (.map(LeanString::from)). With the features off the impls are absent; Cargo.toml keeps both dependencies optional."},
    # each optional feature also builds on its own, without `std` (quick tier too: a `use std::..` in a
    # feature module only fails there)
    "C20": {"rules": rules_C20, "cross": r_config.cross_C20, "level": "other", "quick_extra": ("x86_64/serde/debug", "x86_64/arbitrary/debug"),
            "explanation": "Per target (compiler layout tables): LeanString, Repr and Option of both are two words, word aligned, with the niche at the last byte and valid range 0..=StaticMarker; LastByte discriminants are exactly 0..=StaticMarker and every byte the crate can store in the last position (UTF-8 finals < 0xC0, 0xC0|len for len < MAX_INLINE_SIZE by the T5 guard, the two markers by T1) is a valid one - checked for all 256 values, so Some(s) never aliases None. Configurations: every configuration of the tier must build (thorough: 5 feature sets x debug on/off, and --no-default-features on i686 / powerpc64 / powerpc with -Zbuild-std=core,alloc, i.e. against a sysroot without std); core bodies have identical MIR across feature sets; debug on/off bodies are identical outside debug-only regions, which contain only shared-reference reads and panics; every *_unchecked / unreachable_unchecked site is in the audited table and each unreachable_unchecked sits on the Err arm of the expected fallible call next to a debug-only panic twin."},
    "C18": {"rules": rules_C18, "level": "other",
            "explanation": "Maybe-initialised dataflow: in every body that contains a user-code edge (unresolved trait call on a type parameter, callback-taking library call, drop of a generic value), no local of a heap-capable type without drop glue (Repr, HeapBuffer) is initialised across that edge; accumulators must be LeanString (drop glue) or &mut self. U2: a user-code edge taken while a mutable view of the string is live (retain's predicate) has a guard object dropped on its unwind path whose Drop calls Repr::set_len on every path, with a length field advanced only after the bytes were written."},
}
