"""T7-moves (C01): the bytes moved by the mutators are the right ones.

Every write primitive in push_str / insert_str / remove / pop and in the buffer constructors is lifted
to a symbolic memory move  (source base + offset, destination base + offset, byte count)  whose
offsets and counts are *affine forms* over the symbols of the function (current length, index
argument, length of the inserted text, width of the removed character).  The forms are compared with
the ones String's algorithm prescribes, by coefficient (no sampling, no execution): an off-by-one
count, a shifted destination, a stale length all change the form.  Spelling does not matter:
`ptr::copy(p.add(i), p.add(i + n), len - i)`, `buf.copy_within(i..len, i + n)` and
`buf[a..b].copy_from_slice(s)` lift to the same move; private helpers are inlined.

Assumption (stated in the evidence): between the entry of a mutator and its set_len the value of
`self.len()` does not change (reserve / ensure_modifiable keep the text; T3-publish orders the
writes before set_len), so `len(self)` is one symbol.
"""
import re
from facts import callee_name, strip_refs
from guards import describe, anchors

ADD = ("checked_add", "wrapping_add", "saturating_add", "unchecked_add", "strict_add", "overflowing_add")
SUB = ("checked_sub", "wrapping_sub", "saturating_sub", "unchecked_sub", "strict_sub", "overflowing_sub")
PASS = ("ok_or", "ok_or_else", "unwrap", "unwrap_unchecked", "expect", "branch", "unwrap_or_default", "unwrap_or", "unwrap_or_else", "from_output", "into", "from")
NUM = "core::num::<impl usize>::"


class Lin:
    """affine form: sum(coef * symbol) + const"""
    __slots__ = ("t", "c")

    def __init__(self, t=None, c=0):
        self.t = {k: v for k, v in (t or {}).items() if v != 0}
        self.c = c

    @staticmethod
    def sym(s):
        return Lin({s: 1}, 0)

    def __add__(self, o):
        t = dict(self.t)
        for k, v in o.t.items():
            t[k] = t.get(k, 0) + v
        return Lin(t, self.c + o.c)

    def __sub__(self, o):
        return self + o.scale(-1)

    def scale(self, k):
        return Lin({s: v * k for s, v in self.t.items()}, self.c * k)

    def __eq__(self, o):
        return isinstance(o, Lin) and self.t == o.t and self.c == o.c

    def __hash__(self):
        return hash((tuple(sorted(self.t.items())), self.c))

    def is_const(self):
        return not self.t

    def __str__(self):
        parts = []
        for s, v in sorted(self.t.items()):
            parts.append(("%s" % s) if v == 1 else ("-%s" % s if v == -1 else "%d*%s" % (v, s)))
        if self.c or not parts:
            parts.append(str(self.c))
        return " + ".join(parts).replace("+ -", "- ")


class Cx:
    """evaluation context: a body plus what its parameters are in the caller's context"""

    def __init__(self, body, env=None, parent=None):
        self.body, self.env, self.parent = body, env or {}, parent

    def subst(self):
        if not self.env:
            return None
        return {i: pc.desc(e) for i, (pc, e) in self.env.items()}

    def desc(self, e):
        return describe(self.body, e, 0, self.subst())


def _name(t):
    return callee_name(t)


def lin(cx, e, depth=0):
    e = strip_refs(e)
    b = cx.body
    if depth > 30:
        return Lin.sym("?deep")
    k = e[0]
    if k == "param":
        if e[1] in cx.env:
            pc, pe = cx.env[e[1]]
            return lin(pc, pe, depth + 1)
        return Lin.sym("p%d" % e[1])
    if k == "const":
        return Lin({}, e[2]) if isinstance(e[2], int) else Lin.sym(cx.desc(e))
    if k == "cast" and e[1] == "IntToInt":
        return lin(cx, e[2], depth + 1)
    if k in ("ref", "rawptr"):
        return lin(cx, e[2], depth + 1)
    if k == "deref":
        return lin(cx, e[1], depth + 1)
    if k == "bin":
        op = e[1]
        if op in ("Add", "AddUnchecked", "AddWithOverflow"):
            return lin(cx, e[2], depth + 1) + lin(cx, e[3], depth + 1)
        if op in ("Sub", "SubUnchecked", "SubWithOverflow"):
            return lin(cx, e[2], depth + 1) - lin(cx, e[3], depth + 1)
        if op in ("Mul", "MulUnchecked", "MulWithOverflow"):
            a, c = lin(cx, e[2], depth + 1), lin(cx, e[3], depth + 1)
            if a.is_const():
                return c.scale(a.c)
            if c.is_const():
                return a.scale(c.c)
        return Lin.sym(cx.desc(e))
    if k == "field":
        base = e[1]
        if base[0] == "bin" and base[1].endswith("WithOverflow") and e[2] == 0:
            return lin(cx, base, depth + 1)
        if base[0] == "downcast":
            # payload of an Option / Result: the value it carries when present
            return lin(cx, base[1], depth + 1)
        rc, rb = _resolve(cx, base)
        if rb[0] == "agg" and e[2] < len(rb[3]) and not _field_mutated(cx, base, e[2]):
            # a field of a struct / range built by the caller (`move_bytes(a..b, dst)`: src.start)
            return lin(rc, rb[3][e[2]], depth + 1)
        return Lin.sym(cx.desc(e))
    if k == "call":
        t = b.term(e[1])
        n = _name(t)
        args = [b.origin_operand(a) for a in t["args"]]
        leaf = n.rsplit("::", 1)[-1]
        if n.startswith(NUM) and leaf in ADD and len(args) == 2:
            return lin(cx, args[0], depth + 1) + lin(cx, args[1], depth + 1)
        if n.startswith(NUM) and leaf in SUB and len(args) == 2:
            return lin(cx, args[0], depth + 1) - lin(cx, args[1], depth + 1)
        if leaf in PASS and args and (n.startswith("core::option::") or n.startswith("core::result::") or n.startswith("core::ops::try_trait::") or n.startswith("<core::result::") or n.startswith("<core::option::") or n.startswith("core::convert::")):
            return lin(cx, args[0], depth + 1)
        if n in ("core::str::<impl str>::len", "core::slice::<impl [T]>::len") and args:
            v = view(cx, args[0], depth + 1)
            if v[2] is not None:
                return v[2]
        if n in ("repr::Repr::len", "repr::heap_buffer::HeapBuffer::len", "LeanString::len") and args:
            return Lin.sym("len(%s)" % _root(cx, args[0]))
        if n in ("core::cmp::Ord::min", "core::cmp::min", "core::cmp::Ord::max", "core::cmp::max") and len(args) == 2:
            # a clamp that is the identity for every value of the (non-negative) symbols: x.min(x + k)
            la, lb = lin(cx, args[0], depth + 1), lin(cx, args[1], depth + 1)
            d = la - lb
            if "?deep" not in d.t:
                if all(v <= 0 for v in d.t.values()) and d.c <= 0:      # a <= b always
                    return la if leaf == "min" else lb
                if all(v >= 0 for v in d.t.values()) and d.c >= 0:      # a >= b always
                    return lb if leaf == "min" else la
            return Lin.sym(cx.desc(e))
        key = t.get("local_key")
        F = b.facts
        if key and key in F.bodies and key not in anchors(F) and F.bodies[key].j["kind"] != "closure" and depth < 12:
            hb = F.bodies[key]
            ds = hb.defs.get(0, [])
            if len(ds) == 1:
                r = ("call", ds[0][0]) if ds[0][1] == "term" else hb.origin_rvalue(ds[0][2])
                return lin(Cx(hb, {i + 1: (cx, a) for i, a in enumerate(args)}, cx), r, depth + 1)
        return Lin.sym(cx.desc(e))
    if k in ("mem", "local"):
        ds = b.defs.get(e[1], [])
        if len(ds) == 1 and e[1] not in b.partial:
            x = ("call", ds[0][0]) if ds[0][1] == "term" else b.origin_rvalue(ds[0][2])
            if strip_refs(x) != e:
                return lin(cx, x, depth + 1)
        return Lin.sym(cx.desc(e))
    return Lin.sym(cx.desc(e))


def _field_mutated(cx, base, idx):
    """`g.dst_idx += w`: a field of a local that is updated in place is not the value the local was
    built with"""
    b = strip_refs(base)
    while b[0] in ("ref", "rawptr", "deref"):
        b = strip_refs(b[2] if b[0] != "deref" else b[1])
    if b[0] in ("mem", "local"):
        for (_, _, proj) in cx.body.partial.get(b[1], []):
            if proj and isinstance(proj[0], dict) and proj[0].get("f") == idx:
                return True
    return False


def _resolve(cx, e, depth=0):
    """follow parameters into the caller and single-definition locals: -> (context, expression)"""
    e = strip_refs(e)
    while depth < 12:
        depth += 1
        if e[0] in ("ref", "rawptr"):
            e = strip_refs(e[2])
        elif e[0] == "deref":
            e = strip_refs(e[1])
        elif e[0] == "param" and e[1] in cx.env:
            cx, e = cx.env[e[1]]
            e = strip_refs(e)
        elif e[0] in ("mem", "local") and len(cx.body.defs.get(e[1], [])) == 1 and cx.body.defs[e[1]][0][1] != "term":
            e = strip_refs(cx.body.origin_rvalue(cx.body.defs[e[1]][0][2]))
        else:
            break
    return cx, e


def _root(cx, e):
    """canonical name of a handle / text argument, in the outermost caller's terms"""
    e = strip_refs(e)
    while e[0] in ("ref", "rawptr", "deref"):
        e = strip_refs(e[2] if e[0] != "deref" else e[1])
    if e[0] == "param" and e[1] in cx.env:
        pc, pe = cx.env[e[1]]
        return _root(pc, pe)
    if e[0] == "call":
        t = cx.body.term(e[1])
        n = _name(t)
        # views of the same handle name the same storage
        if n in ("repr::Repr::as_heap_buffer", "repr::Repr::as_heap_buffer_mut", "repr::Repr::as_inline_buffer_mut", "repr::Repr::as_static_buffer", "repr::Repr::as_static_buffer_mut") and t["args"]:
            return _root(cx, cx.body.origin_operand(t["args"][0]))
    if e[0] == "field" and e[2] == 0 and len(e) > 3 and e[3] and e[3].strip().lstrip("&").startswith("repr::Repr"):
        return _root(cx, e[1])   # LeanString.0
    if e[0] == "field":
        rc, rb = _resolve(cx, e[1])
        if rb[0] == "agg" and e[2] < len(rb[3]) and not _field_mutated(cx, e[1], e[2]):
            return _root(rc, rb[3][e[2]])   # a capture of a closure / a field of a struct built by the caller
    return cx.desc(e)


STORAGE_VIEWS = {
    # callee -> (is the whole capacity?, length symbol prefix)
    "repr::Repr::as_slice_mut": "cap", "repr::Repr::as_str_mut": "len", "repr::Repr::as_str": "len", "repr::Repr::as_bytes": "len",
    "repr::heap_buffer::HeapBuffer::as_str": "len", "LeanString::as_str": "len", "LeanString::as_bytes": "len",
    "<LeanString as core::ops::deref::Deref>::deref": "len",
}
SAME_VIEW = ("core::str::<impl str>::as_bytes", "core::str::<impl str>::as_bytes_mut", "core::str::converts::from_utf8_unchecked", "core::str::converts::from_utf8_unchecked_mut",
             "core::str::<impl str>::as_mut_str", "core::slice::<impl [T]>::as_mut_slice", "core::slice::<impl [T]>::as_slice",
             "core::ptr::non_null::NonNull::<T>::as_ref", "core::ptr::non_null::NonNull::<T>::as_mut")
INDEXERS = ("::index", "::index_mut", "::get_unchecked", "::get_unchecked_mut")


def view(cx, e, depth=0):
    """a str / slice valued expression -> (base symbol, offset Lin, length Lin | None)"""
    e = strip_refs(e)
    b = cx.body
    if depth > 30:
        return ("?deep", Lin(), None)
    while e[0] in ("ref", "rawptr", "deref"):
        e = strip_refs(e[2] if e[0] != "deref" else e[1])
    if e[0] == "cast":
        return view(cx, e[2], depth + 1)
    if e[0] == "param" and e[1] in cx.env:
        pc, pe = cx.env[e[1]]
        return view(pc, pe, depth + 1)
    if e[0] in ("mem", "local"):
        ds = b.defs.get(e[1], [])
        if len(ds) == 1:
            x = ("call", ds[0][0]) if ds[0][1] == "term" else b.origin_rvalue(ds[0][2])
            if strip_refs(x) != e:
                return view(cx, x, depth + 1)
    if e[0] == "call":
        t = b.term(e[1])
        n = _name(t)
        args = [b.origin_operand(a) for a in t["args"]]
        if n in STORAGE_VIEWS and args:
            r = _root(cx, args[0])
            return ("BUF(%s)" % r, Lin(), Lin.sym(("cap(%s)" if STORAGE_VIEWS[n] == "cap" else "len(%s)") % r))
        if n in SAME_VIEW and args:
            return view(cx, args[0], depth + 1)
        if n.endswith(INDEXERS) and len(args) == 2:
            base, off, ln = view(cx, args[0], depth + 1)
            rcx, rg = _resolve(cx, args[1])
            if rg[0] == "agg":
                rn = rg[1].rsplit("::", 1)[-1]
                fs = rg[3]
                cx_outer, cx = cx, rcx
                if rn == "Range" and len(fs) == 2:
                    s_, e_ = lin(cx, fs[0], depth + 1), lin(cx, fs[1], depth + 1)
                    return (base, off + s_, e_ - s_)
                if rn == "RangeFrom" and len(fs) == 1 and ln is not None:
                    s_ = lin(cx, fs[0], depth + 1)
                    return (base, off + s_, ln - s_)
                if rn == "RangeTo" and len(fs) == 1:
                    return (base, off, lin(cx, fs[0], depth + 1))
                if rn == "RangeFull":
                    return (base, off, ln)
                if rn == "RangeInclusive" or rn == "RangeToInclusive":
                    return ("V(%s)" % cx.desc(e), Lin(), None)
        if n in ("core::slice::raw::from_raw_parts", "core::slice::raw::from_raw_parts_mut", "core::ptr::slice_from_raw_parts", "core::ptr::slice_from_raw_parts_mut") and len(args) == 2:
            pb, po = ptr(cx, args[0], depth + 1)
            return (pb, po, lin(cx, args[1], depth + 1))
        key = t.get("local_key")
        F = b.facts
        if key and key in F.bodies and key not in anchors(F) and F.bodies[key].j["kind"] != "closure" and depth < 12:
            hb = F.bodies[key]
            ds = hb.defs.get(0, [])
            if len(ds) == 1:
                r = ("call", ds[0][0]) if ds[0][1] == "term" else hb.origin_rvalue(ds[0][2])
                return view(Cx(hb, {i + 1: (cx, a) for i, a in enumerate(args)}, cx), r, depth + 1)
    d = _root(cx, e)
    return ("TXT(%s)" % d, Lin(), Lin.sym("len(%s)" % d))


def ptr(cx, e, depth=0):
    """a pointer valued expression -> (base symbol, offset Lin)"""
    e = strip_refs(e)
    b = cx.body
    if depth > 30:
        return ("?deep", Lin())
    while e[0] in ("ref", "rawptr", "deref"):
        e = strip_refs(e[2] if e[0] != "deref" else e[1])
    if e[0] == "cast":
        return ptr(cx, e[2], depth + 1)
    if e[0] == "param" and e[1] in cx.env:
        pc, pe = cx.env[e[1]]
        return ptr(pc, pe, depth + 1)
    if e[0] in ("mem", "local"):
        ds = b.defs.get(e[1], [])
        if len(ds) == 1 and not b.local_ty(e[1]).startswith("["):
            x = ("call", ds[0][0]) if ds[0][1] == "term" else b.origin_rvalue(ds[0][2])
            if strip_refs(x) != e:
                return ptr(cx, x, depth + 1)
    if e[0] == "call":
        t = b.term(e[1])
        n = _name(t)
        args = [b.origin_operand(a) for a in t["args"]]
        leaf = n.rsplit("::", 1)[-1]
        if n in ("core::str::<impl str>::as_ptr", "core::str::<impl str>::as_mut_ptr", "core::slice::<impl [T]>::as_ptr", "core::slice::<impl [T]>::as_mut_ptr") and args:
            v = view(cx, args[0], depth + 1)
            return (v[0], v[1])
        if (n.startswith("core::ptr::mut_ptr::<impl *mut T>::") or n.startswith("core::ptr::const_ptr::<impl *const T>::") or n.startswith("core::ptr::non_null::NonNull::<T>::")) and args:
            if leaf in ("add", "byte_add", "wrapping_add") and len(args) == 2:
                pb, po = ptr(cx, args[0], depth + 1)
                return (pb, po + lin(cx, args[1], depth + 1))
            if leaf in ("sub", "byte_sub", "wrapping_sub") and len(args) == 2:
                pb, po = ptr(cx, args[0], depth + 1)
                return (pb, po - lin(cx, args[1], depth + 1))
            if leaf in ("offset",) and len(args) == 2:
                pb, po = ptr(cx, args[0], depth + 1)
                return (pb, po + lin(cx, args[1], depth + 1))
            if leaf in ("cast", "cast_mut", "cast_const", "as_ptr", "new_unchecked", "as_mut_ptr", "as_non_null_ptr"):
                return ptr(cx, args[0], depth + 1)
        if (n in ("core::ptr::from_ref", "core::ptr::from_mut", "core::ptr::non_null::NonNull::<T>::from_ref", "core::ptr::non_null::NonNull::<T>::from_mut")
                or re.match(r"^<core::ptr::non_null::NonNull<T> as core::convert::From<&(mut )?T>>::from$", n)) and args:
            aty = (t.get("arg_tys") or [""])[0]
            if "str" in aty or "[" in aty:
                v = view(cx, args[0], depth + 1)      # a pointer to a slice / str: where that view starts
                return (v[0], v[1])
            return ptr(cx, args[0], depth + 1)
        key = t.get("local_key")
        F = b.facts
        if key and key in F.bodies and key not in anchors(F) and F.bodies[key].j["kind"] != "closure" and depth < 12:
            hb = F.bodies[key]
            ds = hb.defs.get(0, [])
            if len(ds) == 1:
                r = ("call", ds[0][0]) if ds[0][1] == "term" else hb.origin_rvalue(ds[0][2])
                return ptr(Cx(hb, {i + 1: (cx, a) for i, a in enumerate(args)}, cx), r, depth + 1)
    if e[0] == "field" and len(e) > 3 and e[3] and e[3].strip().startswith("core::ptr::non_null::NonNull<") and e[2] == 0:
        # handle.ptr : the start of that buffer's text
        return ("BUF(%s)" % _root(cx, e[1]), Lin())
    return ("P(%s)" % cx.desc(e), Lin())


# write primitives whose effect is a permutation / fill of a slice: not expressible as one
# (source, destination, count) move - a function that uses one is reported as "not decided"
UNLIFTED = ("core::slice::<impl [T]>::rotate_left", "core::slice::<impl [T]>::rotate_right", "core::slice::<impl [T]>::swap", "core::slice::<impl [T]>::reverse",
            "core::slice::<impl [T]>::fill", "core::slice::<impl [T]>::fill_with", "core::slice::<impl [T]>::swap_with_slice", "core::ptr::write_bytes",
            "core::ptr::mut_ptr::<impl *mut T>::write_bytes", "core::ptr::swap", "core::ptr::swap_nonoverlapping", "core::mem::swap",
            "core::slice::<impl [T]>::sort_unstable", "core::slice::<impl [T]>::split_at_mut", "core::str::<impl str>::split_at_mut")
UNLIFTED_SEEN = {}


class Move:
    def __init__(self, kind, src, dst, n, cx, bb, line, note=""):
        self.kind, self.src, self.dst, self.n, self.cx, self.bb, self.line, self.note = kind, src, dst, n, cx, bb, line, note
        self.rootbb = bb

    def __str__(self):
        return "%s[%s + (%s)  ->  %s + (%s), %s bytes]%s" % (self.kind, self.src[0], self.src[1], self.dst[0], self.dst[1], self.n, self.note)


def moves_of(root):
    """all byte moves and length publications reachable from `root` through private helpers:
    -> (list of Move in block order per frame, list of (callee, receiver root, Lin, cx, bb))"""
    F = root.facts
    moves, lens = [], []
    unlifted = UNLIFTED_SEEN.setdefault(root.path, [])
    del unlifted[:]

    def walk(cx, d, seen, top=None):
        b = cx.body
        for bb, t in b.calls():
            rootbb = bb if top is None else top
            n = _name(t)
            args = [b.origin_operand(a) for a in t["args"]]
            line = t.get("line", 0)
            leaf = n.rsplit("::", 1)[-1]
            if n in ("core::ptr::copy", "core::ptr::copy_nonoverlapping", "core::intrinsics::copy", "core::intrinsics::copy_nonoverlapping") and len(args) == 3:
                moves.append(Move(leaf, ptr(cx, args[0]), ptr(cx, args[1]), lin(cx, args[2]), cx, bb, line))
            elif leaf in ("copy_to", "copy_to_nonoverlapping") and n.startswith("core::ptr::") and len(args) == 3:
                moves.append(Move(leaf, ptr(cx, args[0]), ptr(cx, args[1]), lin(cx, args[2]), cx, bb, line))
            elif leaf in ("copy_from", "copy_from_nonoverlapping") and n.startswith("core::ptr::") and len(args) == 3:
                moves.append(Move(leaf, ptr(cx, args[1]), ptr(cx, args[0]), lin(cx, args[2]), cx, bb, line))
            elif n in ("core::slice::<impl [T]>::copy_from_slice", "core::slice::<impl [T]>::clone_from_slice") and len(args) == 2:
                dv, sv = view(cx, args[0]), view(cx, args[1])
                note = "" if (dv[2] is not None and dv[2] == sv[2]) else "  (lengths %s vs %s: copy_from_slice panics unless equal)" % (dv[2], sv[2])
                moves.append(Move(leaf, (sv[0], sv[1]), (dv[0], dv[1]), dv[2] if dv[2] is not None else Lin.sym("?len"), cx, bb, line, note))
            elif n == "core::slice::<impl [T]>::copy_within" and len(args) == 3:
                v = view(cx, args[0])
                rg = strip_refs(args[1])
                dest = lin(cx, args[2])
                if rg[0] == "agg" and v[2] is not None:
                    rn = rg[1].rsplit("::", 1)[-1]
                    fs = rg[3]
                    s_ = lin(cx, fs[0]) if rn in ("Range", "RangeFrom") else Lin()
                    e_ = lin(cx, fs[1]) if rn == "Range" else (lin(cx, fs[0]) if rn == "RangeTo" else v[2])
                    moves.append(Move(leaf, (v[0], v[1] + s_), (v[0], v[1] + dest), e_ - s_, cx, bb, line))
                else:
                    moves.append(Move(leaf, (v[0], Lin.sym("?")), (v[0], v[1] + dest), Lin.sym("?"), cx, bb, line))
            elif n == "core::char::methods::<impl char>::encode_utf8" and len(args) == 2:
                v = view(cx, args[1])
                moves.append(Move("encode_utf8", ("CHAR(%s)" % cx.desc(args[0]), Lin()), (v[0], v[1]), v[2] if v[2] is not None else Lin.sym("?len"), cx, bb, line))
            elif n in ("repr::Repr::set_len", "repr::heap_buffer::HeapBuffer::set_len", "repr::Repr::truncate_unchecked") and len(args) == 2:
                lens.append((n, _root(cx, args[0]), lin(cx, args[1]), cx, bb, line))
            elif n in UNLIFTED:
                unlifted.append(leaf)
            for m in moves:
                if m.cx is cx and m.bb == bb:
                    m.rootbb = rootbb
            for c in t.get("cb_closures", []):
                # `opt.map(|ch| { .. self.truncate_unchecked(..) .. })`: the closure body runs here
                if c in F.bodies and c not in seen and d > 0:
                    env = {}
                    for a in args:
                        ca = strip_refs(a)
                        if ca[0] == "agg" and ca[1] == c:
                            env[1] = (cx, ca)
                    if n.startswith("core::option::Option::<T>::") and leaf in ("map", "and_then", "inspect", "filter", "is_some_and") and args:
                        env[2] = (cx, ("field", ("downcast", args[0], 1), 0))
                    elif n.startswith("core::result::Result::<T, E>::") and leaf in ("map", "and_then", "inspect") and args:
                        env[2] = (cx, ("field", ("downcast", args[0], 0), 0))
                    walk(Cx(F.bodies[c], env, cx), d - 1, seen | {c}, rootbb)
            k = t.get("local_key")
            if k and k in F.bodies and k not in anchors(F) and F.bodies[k].j["kind"] != "closure" and d > 0 and k not in seen:
                walk(Cx(F.bodies[k], {i + 1: (cx, a) for i, a in enumerate(args)}, cx), d - 1, seen | {k}, rootbb)

    walk(Cx(root), 3, {root.path})
    return moves, lens


def _is(l, want):
    return l == want


def rule_moves(ctx, rule="T7-moves"):
    F = ctx.F
    L = lambda r: Lin.sym("len(%s)" % r)
    P = lambda i: Lin.sym("p%d" % i)

    def need_anchor(fn):
        b = F.bodies.get(fn)
        ctx.need(rule, fn, "anchor", b is not None, "%s not found" % fn)
        return b

    def show(ms):
        return "; ".join(str(m) for m in ms) or "none"

    def undecided(b):
        u = UNLIFTED_SEEN.get(b.path) or []
        if u:
            ctx.ob(rule, b.path, "moves", True, how="uses %s (a permutation / fill, not a single move): byte-move clause not decided for this function" % ", ".join(sorted(set(u))))
        return bool(u)

    # ---- push_str(self, s): s's bytes land at [len, len + |s|), then the length is len + |s|
    b = need_anchor("repr::Repr::push_str")
    if b:
        ms, ls = moves_of(b)
        if undecided(b):
            b = None
    if b:
        S = L("p2")
        want = (("TXT(p2)", Lin()), ("BUF(p1)", L("p1")), S)
        ok = len(ms) == 1 and (ms[0].src, ms[0].dst, ms[0].n) == want and not ms[0].note
        ctx.ob(rule, b.path, "append-at-len", ok, how="one move: text + 0 -> storage + len(self), len(text) bytes",
               detail="push_str moves %s (expected TXT(p2) + 0 -> BUF(p1) + len(p1), len(p2) bytes)" % show(ms))
        pub = [x for x in ls if x[0] == "repr::Repr::set_len"]
        ctx.ob(rule, b.path, "publishes-len+n", len(pub) == 1 and pub[0][1] == "p1" and pub[0][2] == L("p1") + S, how="set_len(len(self) + len(text))",
               detail="push_str publishes %s" % [str(x[2]) for x in pub])
    # ---- insert_str(self, idx, s): tail [idx, len) moves to idx + |s|, then s lands at idx
    b = need_anchor("repr::Repr::insert_str")
    if b:
        ms, ls = moves_of(b)
        if undecided(b):
            b = None
    if b:
        S, i = L("p3"), P(2)
        tail = [m for m in ms if m.src[0] == "BUF(p1)" and m.dst[0] == "BUF(p1)"]
        ins = [m for m in ms if m.src[0] == "TXT(p3)"]
        ok_t = len(tail) == 1 and tail[0].src[1] == i and tail[0].dst[1] == i + S and tail[0].n == L("p1") - i
        ctx.ob(rule, b.path, "tail-shift", ok_t, how="storage + idx -> storage + idx + len(text), len(self) - idx bytes",
               detail="insert_str shifts the tail by %s (expected BUF(p1) + p2 -> BUF(p1) + p2 + len(p3), len(p1) - p2 bytes)" % show(tail))
        ok_i = len(ins) == 1 and ins[0].src[1] == Lin() and ins[0].dst == ("BUF(p1)", i) and ins[0].n == S and not ins[0].note
        ctx.ob(rule, b.path, "text-at-idx", ok_i, how="text + 0 -> storage + idx, len(text) bytes",
               detail="insert_str writes the text by %s (expected TXT(p3) + 0 -> BUF(p1) + p2, len(p3) bytes)" % show(ins))
        ctx.ob(rule, b.path, "no-other-move", len(ms) == len(tail) + len(ins) == 2, how="exactly the two moves", detail="insert_str moves: %s" % show(ms))
        if len(tail) == 1 and len(ins) == 1:
            t0, i0 = tail[0], ins[0]
            before = (t0.rootbb != i0.rootbb and b.dominates(t0.rootbb, i0.rootbb)) or (t0.cx.body is i0.cx.body and t0.bb != i0.bb and t0.cx.body.dominates(t0.bb, i0.bb))
            ctx.ob(rule, b.path, "tail-first", before, how="the tail is moved before the gap is filled", detail="the inserted text is written before the tail was moved out of the way")
        pub = [x for x in ls if x[0] == "repr::Repr::set_len"]
        ctx.ob(rule, b.path, "publishes-len+n", len(pub) == 1 and pub[0][1] == "p1" and pub[0][2] == L("p1") + S, how="set_len(len(self) + len(text))",
               detail="insert_str publishes %s" % [str(x[2]) for x in pub])
    # ---- remove(self, idx): [idx + w, len) moves to idx, length len - w, w = width of the char at idx
    b = need_anchor("repr::Repr::remove")
    if b:
        ms, ls = moves_of(b)
        if undecided(b):
            b = None
    if b:
        i = P(2)
        ok, why = False, show(ms)
        w = None
        if len(ms) == 1 and ms[0].src[0] == ms[0].dst[0] == "BUF(p1)":
            m = ms[0]
            w = m.src[1] - m.dst[1]
            wsyms = list(w.t.items())
            okw = w.c == 0 and len(wsyms) == 1 and wsyms[0][1] == 1 and "len_utf8(" in wsyms[0][0]
            ok = okw and m.dst[1] == i and m.n == L("p1") - i - w
        ctx.ob(rule, b.path, "close-the-gap", ok, how="storage + idx + w -> storage + idx, len(self) - idx - w bytes (w = len_utf8 of the removed char)",
               detail="remove moves %s (expected BUF(p1) + p2 + w -> BUF(p1) + p2, len(p1) - p2 - w bytes)" % why)
        pub = [x for x in ls if x[0] == "repr::Repr::set_len"]
        ctx.ob(rule, b.path, "publishes-len-w", w is not None and len(pub) == 1 and pub[0][1] == "p1" and pub[0][2] == L("p1") - w, how="set_len(len(self) - w)",
               detail="remove publishes %s (w = %s)" % ([str(x[2]) for x in pub], w))
        # the removed char is the one at idx
        if w is not None and w.t:
            sym = list(w.t)[0]
            ctx.ob(rule, b.path, "w=char-at-idx", re.search(r"RangeFrom\{p2\}|Range::Range\{p2, ", sym) is not None and ("next(" in sym or "item(core::str::<impl str>::chars(" in sym), how="w is the width of the first char of text[idx..]",
                   detail="the width used is %s" % sym[:200])
    # ---- pop: new length = len - width of the last char
    b = need_anchor("repr::Repr::pop")
    if b:
        ms, ls = moves_of(b)
        tr = [x for x in ls]
        ok = False
        if len(tr) == 1 and tr[0][1] == "p1":
            w = L("p1") - tr[0][2]
            ws = list(w.t.items())
            ok = w.c == 0 and len(ws) == 1 and ws[0][1] == 1 and "len_utf8(" in ws[0][0] and ("next_back(" in ws[0][0] or "::rev(" in ws[0][0])
        if not ok and len(tr) == 1 and tr[0][1] == "p1":
            # the same length, read off the iterator: `char_indices().next_back()` yields the byte
            # offset at which the last char starts
            nl = tr[0][2]
            syms = list(nl.t.items())
            if nl.c == 0 and len(syms) == 1 and syms[0][1] == 1 and re.match(r"^some\(<core::str::iter::CharIndices<'a> as core::iter::traits::double_ended::DoubleEndedIterator>::next_back\(.*\)\)\.0$", syms[0][0]):
                from guards import _iter_source
                srcs = []
                for bb, t in b.calls():
                    if callee_name(t).endswith("DoubleEndedIterator>::next_back") and "CharIndices" in callee_name(t):
                        it = _iter_source(b, b.origin_operand(t["args"][0]))
                        srcs.append(describe(b, it))
                ok = len(srcs) == 1 and srcs[0] in ("core::str::<impl str>::char_indices(repr::Repr::as_str(p1))", "core::str::<impl str>::char_indices(TEXT(p1))")
        ctx.ob(rule, b.path, "new-len", ok and not ms, how="truncates to len(self) - len_utf8(last char)", detail="pop sets the length to %s (moves: %s)" % ([str(x[2]) for x in tr], show(ms)))
    # ---- constructors that copy a text: the whole text, to the start of the fresh storage
    for fn, textp in (("repr::heap_buffer::HeapBuffer::new", 1), ("repr::heap_buffer::HeapBuffer::with_additional", 1), ("repr::heap_buffer::HeapBuffer::with_exact_capacity", 1), ("repr::inline_buffer::InlineBuffer::new", 1)):
        b = F.bodies.get(fn)
        if not b:
            continue
        ms, ls = moves_of(b)
        txt = [m for m in ms if m.src[0] == "TXT(p%d)" % textp]
        if fn.endswith("with_exact_capacity") and not txt:
            # delegates to with_capacity + copy in a helper, or to another constructor: judged there
            continue
        ok = len(txt) == 1 and txt[0].src[1] == Lin() and txt[0].dst[1] == Lin() and txt[0].n == L("p%d" % textp) and not txt[0].note and txt[0].dst[0] != txt[0].src[0]
        ctx.ob(rule, fn, "copies-whole-text", ok, how="text + 0 -> fresh storage + 0, len(text) bytes", detail="%s copies %s" % (fn, show(txt)))
    # ---- the length-word transition of realloc copies the whole text and publishes its length
    b = F.bodies.get("repr::heap_buffer::HeapBuffer::realloc")
    if b:
        ms, ls = moves_of(b)
        cp = [m for m in ms if m.kind.startswith("copy")]
        # a clamp `len.min(new_capacity)` is the identity under realloc's contract, which is
        # checked at every call site (realloc(capacity>=len))
        contract = realloc_sites_keep_text(ctx, rule)
        if cp:
            CL = r"(?:core::str::<impl str>::len\(repr::heap_buffer::HeapBuffer::as_str\(p1\)\)|repr::heap_buffer::HeapBuffer::len\(p1\))"
            CC = r"(?:repr::heap_buffer::internal::Capacity::as_usize\(ok\(repr::heap_buffer::internal::Capacity::new\(p2\)\)\)|p2)"
            def is_len(x):
                if x == L("p1"):
                    return True
                ws = list(x.t.items())
                return contract and x.c == 0 and len(ws) == 1 and ws[0][1] == 1 and (re.match(r"^core::cmp::(?:Ord::)?min\(%s, %s\)$" % (CL, CC), ws[0][0]) or re.match(r"^core::cmp::(?:Ord::)?min\(%s, %s\)$" % (CC, CL), ws[0][0])) is not None
            ok = len(cp) == 1 and cp[0].src == ("BUF(p1)", Lin()) and cp[0].dst[1] == Lin() and is_len(cp[0].n) and cp[0].dst[0] != "BUF(p1)"
            ctx.ob(rule, b.path, "transition-copies-whole-text", ok, how="old storage + 0 -> new storage + 0, len(self) bytes", detail="realloc's layout transition copies %s" % show(cp))
            pub = [x for x in ls if x[0].endswith("::set_len")]
            ctx.ob(rule, b.path, "transition-publishes-len", len(pub) == 1 and is_len(pub[0][2]) and pub[0][1] != "p1", how="new buffer's length = len(self)", detail="realloc's layout transition publishes %s on %s" % ([str(x[2]) for x in pub], [x[1] for x in pub]))


_LEN_OF = r"(?:repr::Repr::len|repr::heap_buffer::HeapBuffer::len|LeanString::len)\((p\d+)\)"


def realloc_sites_keep_text(ctx, rule=None):
    """`HeapBuffer::realloc`'s contract: the new capacity is at least the current length (otherwise
    the text would not fit the block it is moved to).  Every call site hands over the growth rule's
    value for (len, additional) - which is >= len - or max(len, requested), or sits behind a
    comparison that says so.  -> True when every site does (the copy inside realloc may then rely
    on it); with `rule`, one obligation per site."""
    from guards import inlined_sites
    F = ctx.F
    allok, n = True, 0
    for path, root in F.bodies.items():
        if path not in anchors(F) or root.j["kind"] == "closure" or path.startswith("repr::heap_buffer::HeapBuffer::realloc"):
            continue
        for st in inlined_sites(root, lambda nm: nm == "repr::heap_buffer::HeapBuffer::realloc"):
            n += 1
            recv, cap = st.desc(0), st.desc(1)
            ok = False
            m = re.match(r"^repr::heap_buffer::amortized_growth\(%s, .*\)$" % _LEN_OF, cap)
            if m and m.group(1) == recv:
                ok = True      # max(len*3/2, len + add) >= len (C12-formula decides the formula)
            m = re.match(r"^core::cmp::(?:Ord::)?max\(%s, .*\)$" % _LEN_OF, cap) or re.match(r"^core::cmp::(?:Ord::)?max\(.*, %s\)$" % _LEN_OF, cap)
            if m and m.group(1) == recv:
                ok = True
            for g in st.guards():
                if g[0] == "cmp2" and ((g[1] in ("Ge", "Gt") and g[2] == cap and re.match("^%s$" % _LEN_OF, g[3])) or (g[1] in ("Le", "Lt") and g[3] == cap and re.match("^%s$" % _LEN_OF, g[2]))):
                    ok = True
            allok = allok and ok
            if rule:
                ctx.ob(rule, path, "realloc(capacity>=len):" + st.label(), ok, line=st.line, how="new capacity is amortized_growth(len, ..) / max(len, ..) / compared against len",
                       detail="%s reallocates %s to %s: nothing shows the new capacity is at least the current length (realloc's contract; the text is moved into the new block whole)" % (path, recv, cap))
    if rule:
        ctx.need(rule, "crate", "realloc-sites", n >= 2, "only %d realloc call sites" % n, how="%d realloc call sites" % n)
    return allok and n > 0


def rule_retain_loop(ctx, rule="T9-retain"):
    """retain keeps exactly the chars the predicate accepted, compacted in order.
    Structural form (when the loop has the read-char / ask / write-back shape): the write-back of
    the char lies on the TRUE edge of the predicate call, the predicate is asked about the char
    that is written, the write goes to storage + dst with the char's own width, and the two
    cursors advance by that width - src on every iteration, dst exactly on the kept edge, after the
    write.  If retain is written in another style the clause is not decided (stated in the how)."""
    from guards import guards_at, CLOSURE_CALLS
    F = ctx.F
    b = F.bodies.get("repr::Repr::retain")
    ctx.need(rule, "repr::Repr::retain", "anchor", b is not None, "Repr::retain not found")
    if not b:
        return
    ms, ls = moves_of(b)
    enc = [m for m in ms if m.kind == "encode_utf8" and m.cx.body is b]
    preds = [(bb, t) for bb, t in b.calls() if callee_name(t) in CLOSURE_CALLS and not t.get("resolved")]
    # String::retain asks the predicate exactly once per char, in order: one call site in the loop,
    # none hidden in a closure handed to an iterator adaptor (a pre-scan asks about some char twice)
    hidden = []
    for cp, cb in F.bodies.items():
        if cp.startswith(b.path + "::{closure") and cb.j["kind"] == "closure":
            hidden += ["%s (line %s)" % (cp.rsplit("::", 1)[-1], t.get("line")) for _, t in cb.calls() if callee_name(t) in CLOSURE_CALLS and not t.get("resolved")]
    ctx.ob(rule, b.path, "predicate-asked-at-one-site", len(preds) + len(hidden) <= 1, how="one predicate call site",
           detail="the predicate is invoked at %d sites (%s): some char is asked about more than once, or out of order - visible with a stateful predicate" % (len(preds) + len(hidden), ", ".join(["loop (line %s)" % t.get("line") for _, t in preds] + hidden)))
    if len(enc) != 1 or len(preds) != 1:
        ctx.ob(rule, b.path, "loop-shape", True, how="not the read / ask / write-back loop (%d char writes, %d predicate calls): clause not decided" % (len(enc), len(preds)))
        return
    m, (pbb, pt) = enc[0], preds[0]
    cx = Cx(b)
    # (1) kept edge
    kept = any(g[0] == "pred" and g[3] is True and len(g) > 4 and g[4] == pbb for g in guards_at(b, m.bb))
    ctx.ob(rule, b.path, "write-on-true-edge", kept, how="the char is written back only where predicate(ch) returned true", line=m.line,
           detail="the write-back of a char is not on the true edge of the predicate call: retain keeps the chars the predicate rejected (or all of them)")
    # (2) the char asked about is the char written, with its own width
    chd = m.src[0][len("CHAR("):-1] if m.src[0].startswith("CHAR(") else None
    tup = strip_refs(b.origin_operand(pt["args"][1])) if len(pt["args"]) == 2 else None
    asked = cx.desc(tup[3][0]) if tup is not None and tup[0] == "agg" and len(tup[3]) == 1 else None
    ctx.ob(rule, b.path, "asks-about-the-char-written", chd is not None and asked == chd, how="predicate(ch) and encode_utf8(ch, ..) take the same char", detail="the predicate is asked about %s but %s is written" % (asked, chd))
    W = Lin.sym("core::char::methods::<impl char>::len_utf8(%s)" % chd)
    ctx.ob(rule, b.path, "write-width", m.n == W, how="the write-back is len_utf8(ch) bytes wide", detail="the write-back is %s bytes wide (expected %s)" % (m.n, W))
    dsyms = list(m.dst[1].t.items())
    okd = m.dst[0] == "BUF(p1)" and m.dst[1].c == 0 and len(dsyms) == 1 and dsyms[0][1] == 1
    ctx.ob(rule, b.path, "write-at-dst-cursor", okd, how="written at storage + dst", detail="the write-back goes to %s + (%s)" % (m.dst[0], m.dst[1]))
    if not okd or chd is None:
        return
    D = dsyms[0][0]
    ms_ = re.search(r"Range::Range\{([^,{}]+), ", chd)
    S = ms_.group(1) if ms_ else None
    if S is None:
        # the read position spelled differently (from_raw_parts(data.add(src), len - src) ...): the one
        # loop-carried cursor other than dst that the char expression mentions
        cand = sorted(set(re.findall(r"mem:\w+\.\d+", chd)) - {D})
        S = cand[0] if len(cand) == 1 else None
    if S is None:
        ctx.ob(rule, b.path, "reads-at-src-cursor", True, how="source cursor not recognised in the char expression: cursor clauses not decided")
        return
    ctx.ob(rule, b.path, "reads-at-src-cursor", S != D, how="the char is read from text[src..]", detail="the char is read at the destination cursor %s" % D)
    # (3) cursor updates
    ups = {D: [], S: []}
    for bb, blk in enumerate(b.blocks):
        for s_ in blk["stmts"]:
            if s_["k"] == "assign" and s_["lhs"]["p"] and "deref" not in s_["lhs"]["p"]:
                lhs = cx.desc(b._apply_proj(b.origin_local(s_["lhs"]["l"]) if False else ("mem", s_["lhs"]["l"]), s_["lhs"]["p"], ()))
                if lhs in ups:
                    ups[lhs].append((bb, lin(cx, b.origin_rvalue(s_["rv"]))))
    for name, sym in (("dst", D), ("src", S)):
        u = ups[sym]
        ok = len(u) == 1 and u[0][1] == Lin.sym(sym) + W
        ctx.ob(rule, b.path, name + "-advances-by-char-width", ok, how="%s += len_utf8(ch), once per iteration" % name, detail="the %s cursor is updated by %s (expected one update: %s + %s)" % (name, [str(x[1]) for x in u], sym, W))
    if len(ups[D]) == 1 and len(ups[S]) == 1:
        dbb, sbb = ups[D][0][0], ups[S][0][0]
        true_t = [tb for v, tb in b.term(b.term(pbb)["target"])["arms"]] if b.term(b.term(pbb)["target"])["k"] == "switch" else []
        kept_region = any(g[0] == "pred" and g[3] is True and len(g) > 4 and g[4] == pbb for g in guards_at(b, dbb))
        every_iter = not any(g[0] == "pred" and len(g) > 4 and g[4] == pbb for g in guards_at(b, sbb)) and b.dominates(pbb, sbb)
        ctx.ob(rule, b.path, "dst-advances-only-when-kept", kept_region and b.dominates(m.bb, dbb), how="dst advances on the kept edge, after the write-back", detail="the destination cursor advances outside the kept edge or before the char is written")
        ctx.ob(rule, b.path, "src-advances-every-iteration", every_iter, how="src advances whatever the predicate said", detail="the source cursor does not advance on every iteration (only on one arm of the predicate, or before the predicate was asked)")


def rule_mutators_in_place(ctx, rule="T12-inplace"):
    """push_str / insert_str / remove / pop / truncate edit the receiver's own storage: the only
    operations of the crate they call that can allocate are the ones that make that storage writable
    or roomy (reserve, ensure_modifiable, and truncate_unchecked's private copy of a shared slot).
    A fast path that builds the result as a second string (head + tail, a filtered copy) is not the
    byte move T7 describes - and is judged by nobody."""
    from guards import inlined_sites
    F, cg = ctx.F, ctx.cg
    ALLOWED = ("repr::Repr::reserve", "repr::Repr::ensure_modifiable", "repr::Repr::truncate_unchecked", "repr::Repr::replace_inner")
    n = 0
    for m in ("repr::Repr::push_str", "repr::Repr::insert_str", "repr::Repr::remove", "repr::Repr::pop", "repr::Repr::truncate"):
        b = F.bodies.get(m)
        if not b:
            continue
        n += 1
        gate = lambda nm: nm in F.bodies and nm in anchors(F) and nm != m and cg.may_allocate(nm)
        other = sorted({st.name for st in inlined_sites(b, gate) if st.name not in ALLOWED})
        ctx.ob(rule, m, "allocates-only-to-make-room", not other, how="allocating operations reached: reserve / ensure_modifiable / truncate_unchecked only",
               detail="%s also calls %s: it builds text somewhere else than in the receiver's storage" % (m, other))
    ctx.need(rule, "crate", "mutators", n >= 4, "only %d mutators found" % n, how="%d mutators" % n)
