"""Ownership rules: U1 (no drop-less heap owner live across user code / panicking edges),
raw-Repr leak at exits, Drop-releases, ownership-duplicating primitives."""
from facts import callee_name, strip_refs
from typestate import base_type

DROPLESS = ("repr::Repr", "repr::heap_buffer::HeapBuffer")


def dropless_types(F):
    """heap-capable types without drop glue: Repr, HeapBuffer, and every local struct/enum without
    drop glue that contains one of them by value (a sink struct wrapping a Repr leaks just the same)"""
    out = set(DROPLESS)
    changed = True
    while changed:
        changed = False
        for path, a in F.adts.items():
            if path in out or a.get("needs_drop") or a.get("generic"):
                continue
            for v in a["variants"]:
                for f in v["fields"]:
                    ty = f["ty"].strip()
                    if ty in out or any(ty == "core::option::Option<%s>" % o for o in out):
                        out.add(path)
                        changed = True
    return out


def _moves_in_operand(o):
    if "mv" in o and not o["mv"]["p"]:
        return [o["mv"]["l"]]
    return []


def _rv_operands(rv):
    k = rv["k"]
    if k in ("use", "cast", "un", "repeat"):
        return [rv["a"]]
    if k == "bin":
        return [rv["a"], rv["b"]]
    if k == "aggregate":
        return rv["fields"]
    return []


def maybe_init(body, locs):
    """forward maybe-initialised dataflow for the given locals. -> in-state per block (set)"""
    n = body.n
    instate = {0: frozenset(l for l in locs if 1 <= l <= body.arg_count)}
    work = [0]
    out_at_term = {}
    while work:
        bb = work.pop()
        cur = set(instate[bb])
        blk = body.blocks[bb]
        for s in blk["stmts"]:
            if s["k"] == "assign":
                for o in _rv_operands(s["rv"]):
                    for l in _moves_in_operand(o):
                        cur.discard(l)
                if not s["lhs"]["p"] and s["lhs"]["l"] in locs:
                    rv = s["rv"]
                    # constants (e.g. `TRUE`) own nothing
                    if not (rv["k"] == "use" and "c" in rv["a"]):
                        cur.add(s["lhs"]["l"])
        t = blk["term"]
        before_term = set(cur)
        if t["k"] == "call":
            for a in t["args"]:
                for l in _moves_in_operand(a):
                    cur.discard(l)
            # state seen by the callee's unwind edge: args already moved
            out_at_term[bb] = (before_term, set(cur))
            after = set(cur)
            # replace_inner(&mut L, Repr::new()): L released its buffer and now holds the empty
            # inline value, which owns nothing
            if callee_name(t) == "repr::Repr::replace_inner" and len(t["args"]) == 2:
                a0 = strip_refs(body.origin_operand(t["args"][0]))
                a1 = strip_refs(body.origin_operand(t["args"][1]))
                while a0[0] in ("ref", "rawptr"):
                    a0 = strip_refs(a0[2])
                if a0[0] in ("local", "mem", "param") and a1[0] == "call" and callee_name(body.term(a1[1])) == "repr::Repr::new":
                    after.discard(a0[1])
                    cur.discard(a0[1])
            d = t["dest"]
            if not d["p"] and d["l"] in locs:
                after.add(d["l"])
            succs = []
            if t["target"] is not None:
                succs.append((t["target"], after))
            if isinstance(t["unwind"], int):
                succs.append((t["unwind"], cur))
        else:
            out_at_term[bb] = (before_term, set(cur))
            if t["k"] == "drop" and not t["pl"]["p"] and t["pl"]["l"] in cur:
                cur.discard(t["pl"]["l"])
            succs = [(s, cur) for s, _ in body.succ(bb)]
        for s, st in succs:
            old = instate.get(s)
            new = frozenset(st) if old is None else (old | frozenset(st))
            if old is None or new != old:
                instate[s] = new
                if s not in work:
                    work.append(s)
    return instate, out_at_term


def user_edge_kind(ctx, body, bb):
    """classification of block bb's terminator as an edge on which foreign code runs or a panic
    starts: 'user' | 'panic' | None"""
    t = body.term(bb)
    if t["k"] == "drop":
        return "user" if t.get("generic_ty") else None
    if t["k"] != "call":
        return None
    n = callee_name(t)
    if not t.get("resolved"):
        if t.get("trait_crate") == "lean_string":
            return None
        return "user"
    if t.get("cb_closures") or t.get("cb_impls"):
        return "user"
    # the formatting machinery runs the Display/Debug impls of its arguments: user code
    if n in ("core::fmt::Write::write_fmt", "core::fmt::write", "core::fmt::Formatter::<'a>::write_fmt", "alloc::fmt::format") or any(a.startswith("core::fmt::Arguments") for a in t.get("arg_tys", [])) and not n.startswith("core::panicking"):
        return "user"
    if n.endswith("::unwrap_with_msg") or (n.startswith("core::panicking::") and "nounwind" not in n):
        return "panic"
    # local generic callee instantiated with a caller-supplied type (predicate / iterator)
    if t.get("local_key") and any(("impl " in a or a in ("T", "I", "F", "P")) for a in t.get("generic_args", [])):
        return "user"
    return None


def rule_U1(ctx, include_panic=False, rule="U1"):
    F = ctx.F
    n_edges = 0
    for path, body in F.bodies.items():
        dl = dropless_types(F)
        locs = {i for i, l in enumerate(body.locals) if l["ty"] in dl}
        edges = []
        for bb in range(body.n):
            k = user_edge_kind(ctx, body, bb)
            if k == "user" or (k == "panic" and include_panic):
                if bb in body.debug_only_blocks():
                    continue
                edges.append((bb, k))
        if not edges:
            continue
        n_edges += len(edges)
        if not locs:
            for bb, k in edges:
                t = body.term(bb)
                ctx.ob(rule, path, "%s-edge:bb-ord%d" % (k, _edge_ord(body, bb)), True, how="no drop-less heap owner local in this body", line=t.get("line", 0))
            continue
        instate, at_term = maybe_init(body, locs)
        for bb, k in edges:
            t = body.term(bb)
            live = at_term.get(bb, (set(), set()))[1]
            site = "%s-edge:%s" % (k, _edge_name(body, bb))
            if live and k == "panic":
                from implied import infeasible
                if infeasible(body, bb):
                    ctx.ob(rule, path, site, True, how="assertion implied by the facts that dominate it: no failing edge", line=t.get("line", 0))
                    continue
            if live:
                names = ", ".join("%s (_%d: %s)" % (body.local_name(l) or "tmp", l, body.local_ty(l)) for l in sorted(live))
                ctx.ob(rule, path, site, False, line=t.get("line", 0),
                       detail="drop-less heap owner %s is initialised across %s edge `%s`: if that code unwinds the buffer is leaked" % (names, k, callee_name(t) if t["k"] == "call" else "drop " + t.get("ty", "")))
            else:
                ctx.ob(rule, path, site, True, how="no raw Repr/HeapBuffer initialised here", line=t.get("line", 0))
    return n_edges


def _edge_name(body, bb):
    t = body.term(bb)
    nm = callee_name(t) if t["k"] == "call" else "drop(%s)" % t.get("ty", "")
    c = 0
    for i in range(bb):
        tt = body.term(i)
        nn = callee_name(tt) if tt["k"] == "call" else ("drop(%s)" % tt.get("ty", "") if tt["k"] == "drop" else None)
        if nn == nm:
            c += 1
    return "%s#%d" % (nm, c)


def _edge_ord(body, bb):
    return bb


def rule_raw_leak(ctx, rule="OWN-exit"):
    """outside `impl Repr`/`impl HeapBuffer`: a maybe-initialised raw Repr/HeapBuffer local must have
    been moved somewhere (LeanString(..), replace_inner, return place) before a normal return"""
    F = ctx.F
    for path, body in F.bodies.items():
        if path.startswith("repr::Repr::") or path.startswith("repr::heap_buffer::"):
            continue
        dl = dropless_types(F)
        locs = {i for i, l in enumerate(body.locals) if l["ty"] in dl and i != 0}
        if not locs:
            continue
        instate, at_term = maybe_init(body, locs)
        for bb in range(body.n):
            t = body.term(bb)
            if t["k"] == "return" and bb in at_term:
                live = at_term[bb][1]
                if live:
                    names = ", ".join("_%d(%s)" % (l, body.local_name(l) or "tmp") for l in sorted(live))
                    ctx.ob(rule, path, "return", False, line=t.get("line", 0),
                           detail="raw handle %s (no drop glue) is still initialised at return: its buffer is never released" % names)
                else:
                    ctx.ob(rule, path, "return", True, how="all raw handles moved out")


def rule_drop_releases(ctx, rule="DROP"):
    """The last handle does release: Drop for LeanString exists, LeanString has drop glue, and every
    path through Drop::drop reaches the releasing decrement (replace_inner)."""
    F = ctx.F
    impls = [i for i in F.impls if i["trait"] == "core::ops::drop::Drop" and i["self"] == "LeanString"]
    ctx.need(rule, "LeanString", "impl-Drop", len(impls) == 1, "no `impl Drop for LeanString`: heap buffers of dropped handles are never released")
    adt = F.adts.get("LeanString")
    ctx.need(rule, "LeanString", "needs_drop", adt and adt.get("needs_drop"), "LeanString has no drop glue")
    r = F.adts.get("repr::Repr")
    ctx.need(rule, "repr::Repr", "no-drop-glue", r is not None and not r.get("needs_drop"),
             "Repr has drop glue now: the ownership rules assume raw Repr values are released only through LeanString/replace_inner", how="Repr is drop-less")
    if not impls:
        return
    key = impls[0]["items"].get("drop")
    body = F.bodies.get(key)
    ctx.need(rule, "LeanString", "drop-body", body is not None, "Drop::drop body missing")
    if body is None:
        return
    # must-pass-through: every path from entry to return releases through replace_inner (possibly inside
    # a private layer such as `replace_repr`)
    from guards import must_pass_call, inlined_sites, describe
    ok = must_pass_call(body, {"repr::Repr::replace_inner"})
    ctx.ob(rule, key, "must-release", ok, how="every path to return passes Repr::replace_inner(self.0, <empty>)",
           detail="a path through <LeanString as Drop>::drop returns without calling the releasing replace_inner")
    # and the replacement owns nothing: Repr::new() or a constant holding the empty inline encoding
    M = F.const_scalar("repr::MAX_INLINE_SIZE")
    empty_hex = ("00" * (M - 1) + "c0") if M else None
    for st in inlined_sites(body, lambda nm: nm == "repr::Repr::replace_inner"):
        d = st.desc(1)
        good = d == "repr::Repr::new()"
        if not good and d.startswith("const:"):
            c = F.consts.get(d[len("const:"):])
            good = c is not None and c.get("bytes") == empty_hex
        ctx.ob(rule, key, "replacement-is-empty", good, how="replacement is the empty inline Repr", detail="Drop replaces the handle with %s, not the empty inline Repr" % d)


def _reaches_without(body, bb, rel):
    return True


# ----------------------------------------------------------------------------- stale views
_VIEW_TYS = ("&str", "&mut str", "&[u8]", "&mut [u8]", "*const u8", "*mut u8", "*const str", "*mut str", "*const [u8]", "*mut [u8]",
             "core::ptr::NonNull<u8>", "core::ptr::non_null::NonNull<u8>")


def _expr_calls(e, out=None, depth=0):
    out = set() if out is None else out
    if depth > 40 or not isinstance(e, tuple):
        return out
    if e and e[0] == "call" and len(e) >= 2 and isinstance(e[1], int):
        out.add(e[1])
        return out
    for x in e:
        if isinstance(x, tuple):
            _expr_calls(x, out, depth + 1)
    return out


def rule_stale_views(ctx, rule="R1-stale"):
    """a pointer / reference into the text, taken from the handle before a call that may free, move or
    replace the handle's buffer, is not used after that call. The borrow checker enforces this for
    references; raw pointers and references rebuilt from them (`&*(s as *const str)`) escape it."""
    import re
    from guards import describe
    F, cg = ctx.F, ctx.cg
    frees = {}

    def may_release(k):
        if k not in frees:
            seen, leaves, users, parent = cg.reach([k])
            frees[k] = any(e.name in ("alloc::alloc::dealloc", "alloc::alloc::realloc") for e in leaves) or any(x.endswith("HeapBuffer::dealloc") or x.endswith("HeapBuffer::realloc") for x in seen)
        return frees[k]
    n = 0
    for path, b in F.bodies.items():
        if b.arg_count < 1 or b.j["kind"] == "closure":
            continue
        t1 = b.local_ty(1) or ""
        if not (t1.startswith("&mut ") and t1[5:] in ("repr::Repr", "LeanString", "repr::heap_buffer::HeapBuffer")):
            continue
        # invalidating calls on the receiver
        inv = []
        for bb, t in b.calls():
            k = t.get("local_key")
            if not k or not t["args"] or not (t["arg_tys"][0] or "").startswith("&mut "):
                continue
            if not re.search(r"\bp1\b", describe(b, b.origin_operand(t["args"][0]))):
                continue
            if may_release(k):
                inv.append(bb)
        if not inv:
            continue
        # views of the receiver's text
        views = {}
        for bb, t in b.calls():
            d = t.get("dest")
            if not d or d.get("p") or not t["args"]:
                continue
            if (b.local_ty(d["l"]) or "") in _VIEW_TYS and re.search(r"\bp1\b", describe(b, b.origin_operand(t["args"][0]))):
                views[bb] = callee_name(t)
        if not views:
            continue
        n += 1
        for ib in inv:
            before = [vb for vb in views if vb != ib and ib in b.reachable(vb, unwind=False)]
            if not before:
                continue
            for vb in before:
                after = b.reachable(b.term(ib)["target"], unwind=False, stop=(lambda q, _vb=vb: q == _vb)) if b.term(ib).get("target") is not None else set()
                hit = None
                for x in sorted(after):
                    ops = []
                    for st in b.blocks[x]["stmts"]:
                        if st["k"] == "assign":
                            try:
                                ops.append((st.get("line"), b.origin_rvalue(st["rv"])))
                            except Exception:
                                pass
                    tx = b.term(x)
                    if tx["k"] == "call":
                        for a in tx["args"]:
                            ops.append((tx.get("line"), b.origin_operand(a)))
                    for ln, e in ops:
                        if vb in _expr_calls(e):
                            hit = (x, ln)
                            break
                    if hit:
                        break
                ctx.ob(rule, path, "view-not-used-after:%s" % callee_name(b.term(ib)).rsplit("::", 1)[-1], hit is None, line=(hit[1] if hit else b.term(ib).get("line")),
                       how="no view of the text taken before %s is used after it" % callee_name(b.term(ib)).rsplit("::", 1)[-1],
                       detail="the text view returned by %s (line %s) is still used at line %s, after %s (line %s) may have released or moved the buffer it points into: the last other owner can free it meanwhile" % (
                           views[vb], b.term(vb).get("line"), hit[1] if hit else "-", callee_name(b.term(ib)), b.term(ib).get("line")))
    ctx.need(rule, "crate", "functions-with-views-and-invalidators", n >= 3, "only %d functions take a text view and call a buffer-replacing operation" % n, how="%d functions examined" % n)


def rule_no_hidden_state(ctx, rule="NOSTATE"):
    """The result of every operation depends on its operands only - as String's does: the crate keeps
    nothing between calls.  No thread-local, no lock / once-cell / RefCell / Cell, no `static mut`.
    (The one shared mutable location is the reference counter in a heap buffer's header, reached
    through a handle and touched by atomics only - P4.)  A scratch buffer or cache that survives a
    call is state a panicking callback can leave half-written."""
    F = ctx.F
    bad = []
    n = 0
    for path, b in F.bodies.items():
        for bb, t in b.calls():
            nm = callee_name(t)
            n += 1
            if nm.startswith(("std::thread::local::", "std::thread::LocalKey", "core::cell::", "std::sync::mutex", "std::sync::Mutex", "std::sync::rwlock", "std::sync::RwLock", "std::sync::once",
                              "std::sync::Once", "std::sync::poison", "std::sync::lazy_lock", "core::cell::once", "std::collections::", "alloc::collections::")):
                bad.append("%s in %s (line %s)" % (nm, path, t.get("line")))
    for c in F.j.get("statics", []) if isinstance(F.j.get("statics"), list) else []:
        if c.get("mutable") or any(x in (c.get("ty") or "") for x in ("Cell<", "Mutex<", "RwLock<", "Atomic", "Once")):
            bad.append("static %s: %s" % (c.get("path"), c.get("ty")))
    ctx.ob(rule, "crate", "no-state-between-calls", not bad, how="no thread-local / cell / lock / collection call among %d call sites" % n,
           detail="the crate keeps state between calls: %s - what an operation returns then depends on earlier calls (and on what a panicking callback left there)" % "; ".join(bad[:4]))
