"""C20: configuration rules — debug-only regions are pure, unchecked hints are audited,
per-body MIR is identical across feature sets, debug/nodebug differ only inside debug regions."""
import hashlib, json, re
from facts import callee_name, strip_refs, is_debug_only_switch, const_switch_target
from guards import guards_at, describe, anchors, callers_of, anchor_callers

PANIC_PREFIX = ("core::panicking::", "core::fmt::Arguments", "core::fmt::rt::")

UNCHECKED_TABLE = {
    # (function, callee) -> reason the precondition holds
    ("repr::heap_buffer::HeapBuffer::realloc", "core::hint::unreachable_unchecked"): "Err arm of layout_from_capacity(header().capacity): that capacity already produced a valid layout at allocation time",
    ("repr::heap_buffer::HeapBuffer::dealloc", "core::hint::unreachable_unchecked"): "same as realloc",
    ("repr::heap_buffer::HeapBuffer::set_len", "core::hint::unreachable_unchecked"): "Err arm of TextLen::new(len): len <= capacity <= MAX_LEN",
    ("repr::Repr::remove", "core::option::Option::<T>::unwrap_unchecked"): "idx < len was asserted: the tail has a first char",
    ("repr::Repr::retain", "core::option::Option::<T>::unwrap_unchecked"): "src_idx < len: the tail has a first char",
    ("repr::Repr::retain", "core::str::<impl str>::get_unchecked"): "src_idx..len within the text",
    ("repr::Repr::as_str_mut", "core::slice::<impl [T]>::get_unchecked_mut"): "..len within capacity",
    ("repr::Repr::truncate_unchecked", "core::str::<impl str>::get_unchecked"): "..new_len within the text, on a char boundary (caller contract)",
    ("LeanString::from_utf8_unchecked", "core::str::converts::from_utf8_unchecked"): "public unsafe fn: caller contract",
    ("repr::Repr::as_str", "core::str::converts::from_utf8_unchecked"): "Repr holds UTF-8",
    ("repr::Repr::as_str_mut", "core::str::converts::from_utf8_unchecked_mut"): "Repr holds UTF-8",
    ("repr::heap_buffer::HeapBuffer::as_str", "core::str::converts::from_utf8_unchecked"): "HeapBuffer holds UTF-8",
    ("repr::heap_buffer::HeapBuffer::allocate_ptr", "core::ptr::non_null::NonNull::<T>::new_unchecked"): "after the null test",
    ("repr::heap_buffer::HeapBuffer::realloc", "core::ptr::non_null::NonNull::<T>::new_unchecked"): "after the null test",
    ("repr::static_buffer::StaticBuffer::new", "core::ptr::non_null::NonNull::<T>::new_unchecked"): "pointer of a &'static str",
}


# unchecked sub-view constructors with one and the same precondition ("the range lies inside the
# view / allocation"): replacing one spelling by another in an audited function changes nothing
FAMILY = {
    "core::slice::<impl [T]>::get_unchecked_mut": "raw-subview-mut", "core::str::<impl str>::get_unchecked_mut": "raw-subview-mut", "core::slice::raw::from_raw_parts_mut": "raw-subview-mut",
    "core::slice::<impl [T]>::get_unchecked": "raw-subview", "core::str::<impl str>::get_unchecked": "raw-subview", "core::slice::raw::from_raw_parts": "raw-subview",
}
# a sub-view of a str taken without the char-boundary check, however it is spelled
FAMILY2 = {
    "core::str::<impl str>::get_unchecked": "utf8-view", "core::str::<impl str>::get_unchecked_mut": "utf8-view",
    "core::str::converts::from_utf8_unchecked": "utf8-view", "core::str::converts::from_utf8_unchecked_mut": "utf8-view",
}
FAMILY_TABLE = {
    ("repr::Repr::retain", "utf8-view"): "src_idx..len starts on a char boundary of valid text",
    ("repr::Repr::truncate_unchecked", "utf8-view"): "..new_len ends on a char boundary (caller contract)",
    ("repr::Repr::as_str", "utf8-view"): "Repr holds UTF-8", ("repr::Repr::as_str_mut", "utf8-view"): "Repr holds UTF-8",
    ("repr::heap_buffer::HeapBuffer::as_str", "utf8-view"): "HeapBuffer holds UTF-8",
    ("LeanString::from_utf8_unchecked", "utf8-view"): "public unsafe fn: caller contract",
    ("repr::Repr::retain", "raw-subview-mut"): "dst slice dst_idx..dst_idx+ch_len inside the unique str view (dst_idx <= src_idx, src_idx + ch_len <= len)",
    ("repr::Repr::retain", "raw-subview"): "src_idx..len within the text",
    ("repr::Repr::as_str_mut", "raw-subview-mut"): "..len within capacity",
    ("repr::Repr::as_slice_mut", "raw-subview-mut"): "the whole capacity of the unique / inline buffer",
    ("repr::Repr::truncate_unchecked", "raw-subview"): "..new_len within the text, on a char boundary (caller contract)",
    ("repr::Repr::as_bytes", "raw-subview"): "(ptr, len) of the storage",
    ("repr::heap_buffer::HeapBuffer::as_str", "raw-subview"): "(ptr, len) of the heap buffer",
}


def _audited(path, nme):
    if (path, nme) in UNCHECKED_TABLE:
        return UNCHECKED_TABLE[(path, nme)]
    for fam in (FAMILY.get(nme), FAMILY2.get(nme)):
        if fam and (path, fam) in FAMILY_TABLE:
            return FAMILY_TABLE[(path, fam)]
    return None


def rule_debug_regions(ctx, rule="C20-debugpure"):
    """everything that runs only under debug_assertions is a pure check or a panic"""
    F = ctx.F
    n = 0
    for path, b in F.bodies.items():
        dbg = b.debug_only_blocks()
        if not dbg:
            continue
        n += 1
        bad = []
        for bb in sorted(dbg):
            t = b.term(bb)
            if t["k"] == "call":
                nme = callee_name(t)
                if nme.startswith(PANIC_PREFIX):
                    continue
                if any(a.startswith("&mut ") or a.startswith("*mut ") for a in t.get("arg_tys", [])):
                    bad.append("%s takes a mutable argument (line %s)" % (nme, t.get("line")))
            if t["k"] == "drop" and any(x in (t.get("ty") or "") for x in ("LeanString", "repr::Repr", "HeapBuffer")):
                # a handle dropped inside a debug-only region: its release happens in debug builds only
                bad.append("drop of a %s (line %s)" % (t.get("ty"), t.get("line")))
            for s in b.blocks[bb]["stmts"]:
                if s["k"] == "assign" and s["lhs"]["p"] and "deref" in s["lhs"]["p"]:
                    bad.append("store through a pointer (line %s)" % s.get("line"))
        ctx.ob(rule, path, "debug-regions-pure", not bad, how="%d debug-only blocks: shared-reference reads and panics only" % len(dbg),
               detail="code that runs only with debug assertions has an effect, so debug and release builds behave differently: %s" % "; ".join(bad[:3]))
    ctx.need(rule, "crate", "bodies-with-debug-regions", n >= 5, "only %d bodies contain debug-only regions" % n, how="%d bodies with debug-only regions" % n)


# hints whose precondition must be established by a real (non-debug) guard dominating the site:
# (function, callee) -> predicate over the described guards at the site
def _lt_len(gs, lhs_pat):
    for g in gs:
        if g[0] == "cmp2":
            if g[1] == "Lt" and re.search(lhs_pat, g[2]) and g[3] == "repr::Repr::len(p1)":
                return True
            if g[1] == "Gt" and re.search(lhs_pat, g[3]) and g[2] == "repr::Repr::len(p1)":
                return True
    return False


REQUIRED_GUARD = {
    ("repr::Repr::remove", "core::option::Option::<T>::unwrap_unchecked"): (lambda gs: _lt_len(gs, r"^p2$"), "idx < self.len()"),
    ("repr::Repr::retain", "core::option::Option::<T>::unwrap_unchecked"): (lambda gs: _lt_len(gs, r"."), "src_idx < len"),
}


def rule_unchecked_sites(ctx, rule="C20-unchecked"):
    F = ctx.F
    found = set()
    for path, b in F.bodies.items():
        for bb, t in b.calls():
            nme = callee_name(t)
            leaf = nme.rsplit("::", 1)[-1]
            if "unchecked" in leaf and not leaf.startswith("unchecked_") and not t.get("local_key"):
                if bb not in b.reachable(0):
                    continue      # an arm that does not exist in this instantiation / configuration
                found.add((path, nme))
                key = (path, nme)
                audited = _audited(path, nme) is not None
                lifted = False
                if not audited and (path not in anchors(F) or b.j["kind"] == "closure"):
                    # code moved into a private helper / closure: the site is audited if every anchor
                    # function it is reached from had the same hint audited (its justification moved with it)
                    acs = anchor_callers(F, path)
                    audited = bool(acs) and all(_audited(a, nme) is not None for a in acs)
                    lifted = audited
                justified = None
                if not audited and nme in ("core::result::Result::<T, E>::unwrap_unchecked", "core::option::Option::<T>::unwrap_unchecked") and t["args"]:
                    # `u8::try_from(n).unwrap_unchecked()` behind a real test that n fits (or a remainder by
                    # a literal that does): the conversion cannot fail - it is `n as u8` with the proof attached
                    a0 = strip_refs(b.origin_operand(t["args"][0]))
                    if a0[0] == "call":
                        tt = b.term(a0[1])
                        mm = re.match(r"^core::convert::num::.*<impl core::convert::TryFrom<(\w+)> for (\w+)>::try_from$", callee_name(tt))
                        if mm and tt["args"]:
                            bits = {"u8": 8, "u16": 16, "u32": 32, "u64": 64, "usize": F.ptr_bits}
                            to = bits.get(mm.group(2))
                            x = strip_refs(b.origin_operand(tt["args"][0]))
                            dx = describe(b, x)
                            if to:
                                if bits.get(mm.group(1), 999) <= to:
                                    justified = "widening conversion"
                                for g in guards_at(b, bb):
                                    if g[0] == "cmp" and g[3] is not None and g[3] < 2 ** to and describe(b, g[1]) == dx:
                                        justified = "behind %s <= %d" % (dx, g[3])
                                if x[0] == "bin" and x[1] == "Rem" and strip_refs(x[3])[0] == "const" and isinstance(strip_refs(x[3])[2], int) and strip_refs(x[3])[2] <= 2 ** to:
                                    justified = "a remainder by %d" % strip_refs(x[3])[2]
                    audited = justified is not None
                if not audited and nme in ("core::str::<impl str>::get_unchecked", "core::str::<impl str>::get_unchecked_mut") and len(t["args"]) == 2:
                    # a hint that carries its own proof: text.get_unchecked(x..) / (..x) behind a real
                    # (non-debug) `text.is_char_boundary(x)` test - which also bounds x by the length
                    norm = lambda d: d.replace("repr::Repr::as_str_mut(", "repr::Repr::as_str(")
                    txt = norm(describe(b, b.origin_operand(t["args"][0])))
                    m = re.match(r"^core::ops::range::Range(From|To)::Range(From|To)\{(.*)\}$", describe(b, b.origin_operand(t["args"][1])))
                    if m:
                        for g in guards_at(b, bb):
                            if g[0] == "pred" and g[1] == "core::str::<impl str>::is_char_boundary" and g[3] is True and len(g) > 5 and len(g[5]) == 2:
                                if norm(describe(b, g[5][0])) == txt and describe(b, g[5][1]) == m.group(3):
                                    justified = "behind %s.is_char_boundary(%s)" % (txt, m.group(3))
                    audited = justified is not None
                ctx.ob(rule, path, "audited:" + nme.rsplit("::", 1)[-1], audited, how=_audited(path, nme) or justified or "moved into a helper called only from audited functions", line=t.get("line", 0),
                       detail="new `%s` site in %s is not in the audited table: its precondition holds only by an argument nobody wrote down; in release builds a violated hint is undefined behaviour" % (nme, path))
                for a in ([path] if path in anchors(F) and b.j["kind"] != "closure" else sorted(anchor_callers(F, path))):
                    req = REQUIRED_GUARD.get((a, nme))
                    if req:
                        from guards import inlined_sites
                        ab = F.bodies[a]
                        for st in inlined_sites(ab, lambda x: x == nme):
                            ok = req[0](st.guards())
                            ctx.ob(rule, a, "guarded:" + st.label(), ok, how="hint dominated by the real check `%s`" % req[1], line=st.line,
                                   detail="`%s` in %s relies on `%s`, which no non-debug guard establishes at the site (a debug_assert! does not exist in release builds: there the hint is undefined behaviour for the inputs the check used to reject)" % (nme.rsplit("::", 1)[-1], a, req[1]))
                if nme == "core::hint::unreachable_unchecked" and not lifted:
                    # sits on the Err edge of the expected fallible call, next to its debug twin
                    gs = guards_at(b, bb)
                    errs = [g for g in gs if g[0] == "cls" and g[2] == "Err"]
                    what = [describe(b, g[3]) for g in errs]
                    ok = any((re.search(r"layout_from_capacity\(HDR\(p1\)\.\d\)", w)) or ("TextLen::new(p2)" in w) for w in what)
                    if not ok and path not in anchors(F):
                        # helper taking the capacity as a parameter: every caller passes header().capacity
                        cs = callers_of(F, path)
                        ok = bool(cs) and any("layout_from_capacity(p" in w for w in what) and all(
                            any(describe(cb, cb.origin_operand(a)) in ("HDR(p1).0", "HDR(p1).1") for a in ct["args"]) for cb, cbb, ct in cs)
                    ctx.ob(rule, path, "unreachable-on-Err-edge", ok, how="on the Err arm of %s" % what, line=t.get("line", 0),
                           detail="unreachable_unchecked is not on the Err arm of layout_from_capacity(header().capacity) / TextLen::new(len): %s" % what)
                    # debug twin: a debug-only panic on the same edge
                    twin = False
                    for sb in range(b.n):
                        if is_debug_only_switch(b, sb) and all(g in guards_at(b, sb) or True for g in errs):
                            tt = b.term(sb)
                            fa = [tb for v, tb in tt["arms"] if v == 0]
                            if fa and bb in b.reachable(fa[0], unwind=False):
                                dbgb = b.debug_only_blocks()
                                if any(callee_name(b.term(x)).startswith("core::panicking::") for x in dbgb if b.term(x)["k"] == "call" and x in b.reachable(tt["otherwise"], unwind=False)):
                                    twin = True
                    ctx.ob(rule, path, "debug-twin-panics", twin, how="same edge panics under debug assertions", detail="unreachable_unchecked has no `if cfg!(debug_assertions) { panic!() }` twin on its edge")
    miss = [k for k in UNCHECKED_TABLE if k not in found and k[0] in F.bodies]
    # entries may legitimately disappear (safer code); not an error


def fingerprint(body_json):
    """structure hash of a body with spans, names and macro info removed"""
    def strip(x):
        if isinstance(x, dict):
            return {k: strip(v) for k, v in x.items() if k not in ("line", "expn", "name", "file", "lines", "from_expansion")}
        if isinstance(x, list):
            return [strip(v) for v in x]
        return x
    j = strip({"locals": body_json["locals"], "blocks": body_json["blocks"], "arg_count": body_json["arg_count"]})
    return hashlib.sha256(json.dumps(j, sort_keys=True).encode()).hexdigest()[:16]


def strip_debug_regions(b):
    """body JSON with the debug-only blocks and the debug switches neutralised"""
    dbg = b.debug_only_blocks()
    blocks = []
    for i, blk in enumerate(b.blocks):
        if i in dbg:
            blocks.append({"dbg": True})
            continue
        t = blk["term"]
        if is_debug_only_switch(b, i):
            t = {"k": "dbgswitch"}
        stmts = [s for s in blk["stmts"] if not (s["k"] == "assign" and s["rv"]["k"] == "use" and "c" in s["rv"]["a"] and s["rv"]["a"]["c"].get("ty") == "bool" and any("cfg" in e or "debug_assert" in e for e in s.get("expn", [])))]
        blocks.append({"stmts": stmts, "term": t})
    return {"locals": b.locals, "blocks": blocks, "arg_count": b.arg_count}


def skeleton(b):
    """check-insensitive structure of a body: what it calls, stores, builds and branches on, outside
    debug-only regions.  Compiler-inserted checks (overflow asserts, alignment / null checks, which
    come and go with -Cdebug-assertions and differ per configuration) are not part of it."""
    dbg = b.debug_only_blocks()
    calls, stores, aggs, switches = [], 0, [], 0
    # only code that exists in this configuration: arms cut off by a constant configuration
    # predicate (cfg!(feature = ..)) are not reachable (Body.succ prunes them)
    live = b.reachable(0)
    for i, blk in enumerate(b.blocks):
        if i in dbg or i not in live:
            continue
        for s in blk["stmts"]:
            if s["k"] == "assign":
                if s["lhs"]["p"] and "deref" in s["lhs"]["p"]:
                    stores += 1
                if s["rv"]["k"] == "aggregate" and s["rv"].get("agg") == "adt":
                    aggs.append(s["rv"]["adt"] + "::" + (s["rv"].get("variant_name") or ""))
        t = blk["term"]
        if t["k"] == "call":
            n = callee_name(t)
            if n.startswith("core::panicking::panic_nounwind") or n.startswith("core::ub_checks") or "precondition_check" in n:
                continue
            calls.append(n + "<" + ",".join(t.get("generic_args", [])) + ">")
        elif t["k"] == "switch" and not is_debug_only_switch(b, i) and const_switch_target(b, i) is None:
            switches += 1
    return hashlib.sha256(json.dumps([sorted(calls), stores, sorted(aggs), switches]).encode()).hexdigest()[:16]


def cross_C20(cfgs, add):
    """cfgs: list of (cfg dict, Facts). add(rule, fn, site, ok, how, detail)"""
    # (1) same code in every feature set: bodies of repr::* and inherent LeanString methods
    groups = {}
    for cfg, F in cfgs:
        key = (F.config["target"], F.config["debug_assertions"])
        groups.setdefault(key, []).append((cfg, F))
    ncmp = 0
    for key, lst in groups.items():
        if len(lst) < 2:
            continue
        ref_cfg, ref = lst[0]
        core_ = lambda p: p.startswith("repr::") or p.startswith("LeanString::")
        # trait impls and nested items too (`<SetLenOnDrop as Drop>::drop`, closures): a feature may add
        # impls, so these are compared where both feature sets have them
        nested = lambda p: not core_(p) and ("repr::" in p or "LeanString" in p) and "features::" not in p
        reffp = {p: skeleton(b) for p, b in ref.bodies.items() if core_(p) or nested(p)}
        for cfg, F in lst[1:]:
            diffs = []
            for p, fp in reffp.items():
                b = F.bodies.get(p)
                if b is None:
                    if core_(p):
                        diffs.append(p + " (missing)")
                elif skeleton(b) != fp:
                    diffs.append(p)
            ncmp += len(reffp)
            add("C20-samecode", "%s vs %s" % (ref_cfg["name"], cfg["name"]), "core-bodies", not diffs, "%d core bodies have the same calls / stores / aggregates / branches in both feature sets" % len(reffp),
                "feature set changes the code of core functions (features must only add impls): %s" % diffs[:5])
    # (2) debug and nodebug differ only inside debug regions
    bykey = {}
    for cfg, F in cfgs:
        feats = tuple(sorted(F.config["features"]))
        bykey.setdefault((F.config["target"], feats), {})[F.config["debug_assertions"]] = (cfg, F)
    for k, d in bykey.items():
        if True in d and False in d:
            (c1, F1), (c2, F2) = d[True], d[False]
            diffs = []
            n = 0
            for p, b1 in F1.bodies.items():
                b2 = F2.bodies.get(p)
                if b2 is None:
                    diffs.append(p + " (missing without debug assertions)")
                    continue
                n += 1
                if skeleton(b1) != skeleton(b2):
                    diffs.append(p)
            add("C20-debug-vs-release", "%s vs %s" % (c1["name"], c2["name"]), "outside-debug-regions", not diffs, "%d bodies have the same calls / stores / aggregates / branches outside debug-only regions" % n,
                "bodies differ between debug-assertions on/off outside `debug_assert!`/`cfg!(debug_assertions)` regions: %s" % diffs[:5])
    return ncmp


def _strip(x):
    if isinstance(x, dict):
        return {k: _strip(v) for k, v in x.items() if k not in ("line", "expn", "name", "file", "lines", "from_expansion")}
    if isinstance(x, list):
        return [_strip(v) for v in x]
    return x


def rule_cargo_features(ctx, rule="C20-features"):
    """feature table of Cargo.toml still gates the optional integrations; no_std attribute"""
    import os
    repo = os.environ.get("LSA_REPO", "/repo")
    try:
        txt = open(os.path.join(repo, "Cargo.toml")).read()
    except OSError:
        ctx.ob(rule, "Cargo.toml", "readable", False, detail="Cargo.toml not readable")
        return
    sect = re.search(r"\[features\](.*?)(\n\[|\Z)", txt, re.S)
    feats = sect.group(1) if sect else ""
    ctx.ob(rule, "Cargo.toml", "default=[std]", re.search(r'default\s*=\s*\[\s*"std"\s*\]', feats) is not None, how='default = ["std"]', detail="default feature set changed: %s" % feats.strip())
    for dep in ("serde", "arbitrary"):
        m = re.search(r"^%s\s*=\s*\{([^}]*)\}" % dep, txt, re.M)
        ctx.ob(rule, "Cargo.toml", dep + "-optional", m is not None and "optional = true" in m.group(1) and "default-features = false" in m.group(1), how="%s is optional, default-features off" % dep,
               detail="%s dependency is no longer optional / no_std-clean" % dep)
    F = ctx.F
    feats_on = set(F.config["features"])
    if "std" not in feats_on:
        # really no_std: no body may call into crate std
        bad = []
        for path, b in F.bodies.items():
            for bb, t in b.calls():
                if (t.get("inst_crate") or t.get("callee_crate")) == "std":
                    bad.append("%s in %s" % (callee_name(t), path))
        ctx.ob(rule, "crate", "no-std-calls", not bad, how="no call into crate `std` without the std feature", detail="calls into std without the std feature: %s" % bad[:3])

