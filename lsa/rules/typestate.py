"""A4: interprocedural typestate solver for the storage-kind / ownership lattice of a
Repr / HeapBuffer / LeanString handle (DESIGN 1.2, appendix C).

State = set of tuples (powerset domain => path-sensitive up to the finite lattice).
The solver walks the MIR CFG of one body for one *tracked object* (a parameter or a local),
refines tuples on switch edges (A3), applies transfer functions keyed on resolved callees,
and descends into local callees that receive the tracked object (summaries are computed, not
assumed).  It records *obligations* (rule instances) with the verdict of every tuple that
reached them.
"""
from collections import namedtuple, OrderedDict
from facts import pointee as _pointee, strip_refs, callee_name, is_debug_only_switch, expn_has

T = namedtuple("T", "kind uniq ref acq inc asg dirty ret facts")

ACQ = ("Acquire", "AcqRel", "SeqCst")
REL = ("Release", "AcqRel", "SeqCst")

# library functions that return (a cast / offset of) the pointer or reference they are given
PTR_TRANSPARENT = (
    "core::ptr::from_ref", "core::ptr::from_mut",
    "core::ptr::const_ptr::<impl *const T>::cast", "core::ptr::const_ptr::<impl *const T>::cast_mut", "core::ptr::const_ptr::<impl *const T>::cast_const",
    "core::ptr::mut_ptr::<impl *mut T>::cast", "core::ptr::mut_ptr::<impl *mut T>::cast_const", "core::ptr::mut_ptr::<impl *mut T>::cast_mut",
    "core::ptr::non_null::NonNull::<T>::cast", "core::ptr::non_null::NonNull::<T>::as_ptr",
    "core::ptr::non_null::NonNull::<T>::new_unchecked", "core::ptr::non_null::NonNull::<T>::from_ref", "core::ptr::non_null::NonNull::<T>::from_mut",
)
# bitwise read of a pointee: (callee) -> index of the source pointer argument
READ_PRIMS = {"core::ptr::read": 0, "core::ptr::const_ptr::<impl *const T>::read": 0, "core::ptr::mut_ptr::<impl *mut T>::read": 0,
              "core::ptr::non_null::NonNull::<T>::read": 0, "core::ptr::read_unaligned": 0}
# writes through a pointer / slice: callee -> index of the DESTINATION argument
WRITE_PRIMS = {
    "core::ptr::write": 0, "core::ptr::write_bytes": 0, "core::ptr::copy": 1, "core::ptr::copy_nonoverlapping": 1,
    "core::intrinsics::copy": 1, "core::intrinsics::copy_nonoverlapping": 1,
    "core::ptr::mut_ptr::<impl *mut T>::write": 0, "core::ptr::mut_ptr::<impl *mut T>::write_bytes": 0,
    "core::ptr::mut_ptr::<impl *mut T>::copy_from": 0, "core::ptr::mut_ptr::<impl *mut T>::copy_from_nonoverlapping": 0,
    "core::ptr::mut_ptr::<impl *mut T>::copy_to": 1, "core::ptr::mut_ptr::<impl *mut T>::copy_to_nonoverlapping": 1,
    "core::ptr::const_ptr::<impl *const T>::copy_to": 1, "core::ptr::const_ptr::<impl *const T>::copy_to_nonoverlapping": 1,
    "core::ptr::non_null::NonNull::<T>::write": 0, "core::ptr::non_null::NonNull::<T>::copy_from_nonoverlapping": 0,
    "core::ptr::non_null::NonNull::<T>::copy_from": 0, "core::ptr::non_null::NonNull::<T>::copy_to_nonoverlapping": 1, "core::ptr::non_null::NonNull::<T>::copy_to": 1,
    "core::slice::<impl [T]>::copy_from_slice": 0, "core::slice::<impl [T]>::clone_from_slice": 0, "core::slice::<impl [T]>::fill": 0,
    "core::slice::<impl [T]>::copy_within": 0, "core::slice::<impl [T]>::swap": 0, "core::slice::<impl [T]>::reverse": 0,
    "core::slice::<impl [T]>::rotate_left": 0, "core::slice::<impl [T]>::rotate_right": 0, "core::slice::<impl [T]>::fill_with": 0,
    "core::slice::<impl [T]>::swap_with_slice": 0,
    "core::slice::ascii::<impl [u8]>::make_ascii_uppercase": 0, "core::slice::ascii::<impl [u8]>::make_ascii_lowercase": 0,
    "core::str::<impl str>::make_ascii_uppercase": 0, "core::str::<impl str>::make_ascii_lowercase": 0,
    "core::char::methods::<impl char>::encode_utf8": 1,
}

VIEW_FNS = {
    "repr::Repr::as_heap_buffer": "H", "repr::Repr::as_heap_buffer_mut": "H",
    "repr::Repr::as_static_buffer": "S", "repr::Repr::as_static_buffer_mut": "S",
    "repr::Repr::as_inline_buffer_mut": "I",
}

TRACKED_TYPES = ("LeanString", "repr::Repr", "repr::heap_buffer::HeapBuffer",
                 "repr::static_buffer::StaticBuffer", "repr::inline_buffer::InlineBuffer")


def base_type(ty):
    t = ty.strip()
    while True:
        if t.startswith("&"):
            t = t[1:].lstrip()
            if t.startswith("'"):
                t = t.split(" ", 1)[1] if " " in t else t
            if t.startswith("mut "):
                t = t[4:]
            continue
        if t.startswith("*mut ") or t.startswith("*const "):
            t = t.split(" ", 1)[1]
            continue
        return t


def is_mut_ref(ty):
    t = ty.strip()
    if not t.startswith("&"):
        return False
    t = t[1:].lstrip()
    if t.startswith("'"):
        t = t.split(" ", 1)[1] if " " in t else t
    return t.startswith("mut ")


# Unsafe-contract table B1: callee -> (obligation name, predicate over tuple).
def _modifiable(t):
    return t.kind != "S" and (t.kind != "H" or t.uniq) and t.ref == "own"


CONTRACTS = {
    # callee: (obligation, predicate, reason)
    "repr::Repr::as_heap_buffer": ("kind=Heap", lambda t: t.kind == "H"),
    "repr::Repr::as_heap_buffer_mut": ("kind=Heap", lambda t: t.kind == "H"),
    "repr::Repr::as_static_buffer": ("kind=Static", lambda t: t.kind == "S"),
    "repr::Repr::as_static_buffer_mut": ("kind=Static", lambda t: t.kind == "S"),
    "repr::Repr::as_inline_buffer_mut": ("kind=Inline", lambda t: t.kind == "I"),
    "repr::Repr::as_slice_mut": ("Modifiable", _modifiable),
    "repr::Repr::as_str_mut": ("Modifiable", _modifiable),
    # set_len writes the handle-local length word; for heap storage whose length lives in the
    # allocation (32-bit large strings) it writes shared memory, so Unique is required there.
    # The structural contract used by the crate: receiver Modifiable, or proved unique.
    "repr::Repr::set_len": ("Modifiable-or-unique", lambda t: t.ref == "own" and (t.kind != "H" or t.uniq) and t.kind != "U"),
    "repr::heap_buffer::HeapBuffer::realloc": ("Unique", lambda t: t.kind == "H" and t.uniq and t.ref == "own"),
    "repr::heap_buffer::HeapBuffer::dealloc": ("released-last+acquire or sole owner",
                                               lambda t: t.kind == "H" and ((t.ref == "last" and t.acq) or (t.ref == "own" and t.uniq))),
    "repr::static_buffer::StaticBuffer::set_len": ("kind=Static", lambda t: t.kind == "S"),
    "repr::inline_buffer::InlineBuffer::set_len": ("kind=Inline", lambda t: t.kind == "I"),
}
# HeapBuffer::set_len: allowed when the length word is handle-local (is_len_on_heap false edge),
# or Unique.  is_len_on_heap is tracked as a fact on the tuple ('lenheap', False).


class Ob:
    """One rule instance (obligation) with its verdicts."""
    __slots__ = ("rule", "fn", "site", "file", "line", "ok", "bad", "how", "detail", "prop_tags")

    def __init__(self, rule, fn, site, file, line):
        self.rule, self.fn, self.site, self.file, self.line = rule, fn, site, file, line
        self.ok = 0
        self.bad = []
        self.how = set()
        self.detail = ""

    @property
    def key(self):
        return "%s@%s>%s" % (self.rule, self.fn, self.site)


class Solver:
    def __init__(self, facts):
        self.F = facts
        self.obs = OrderedDict()
        self.summaries = {}
        self.inprogress = set()
        self.heap_marker = facts.enum_discr("repr::last_byte::LastByte", "HeapMarker")
        self.static_marker = facts.enum_discr("repr::last_byte::LastByte", "StaticMarker")
        self.ctx_stack = []
        self.entry_stack = []
        self.body_stack = []
        self.pclass_stack = [()]
        self.events_stack = [set()]
        self.site_ord_cache = {}

    # ------------------------------------------------------------------ obligations
    def ob(self, rule, body, site, line, ok, how="", detail=""):
        key = (rule, body.path, site)
        o = self.obs.get(key)
        if o is None:
            o = Ob(rule, body.path, site, body.file, line)
            self.obs[key] = o
        if ok:
            o.ok += 1
            if how:
                o.how.add(how)
        else:
            ctx = " <- ".join(reversed(self.ctx_stack)) if self.ctx_stack else ""
            d = detail + ((" [called from " + ctx + "]") if ctx else "")
            if d not in o.bad:
                o.bad.append(d)
        return o

    def site_name(self, body, bb):
        """callee#ordinal (ordinal among calls to the same callee in block order): stable under
        edits elsewhere, carries no line number."""
        k = (body.path, bb)
        if k in self.site_ord_cache:
            return self.site_ord_cache[k]
        counts = {}
        for bi, t in body.calls():
            n = callee_name(t)
            c = counts.get(n, 0)
            counts[n] = c + 1
            self.site_ord_cache[(body.path, bi)] = "%s#%d" % (n, c)
        return self.site_ord_cache.get(k, "bb%d" % bb)

    # ------------------------------------------------------------------ canonicalisation
    def canon(self, body, tracked, e, depth=0):
        """-> 'self' | 'counter' | 'bufptr' | 'alloc' | None"""
        if depth > 40:
            return None
        e = strip_refs(e)
        k = e[0]
        tk, ti = tracked
        if k == "param":
            if tk == "ptrparam" and e[1] == ti:
                return "bufptr"   # a helper over raw parts: this parameter is the handle's buffer pointer
            return "self" if (tk == "param" and e[1] == ti) else None
        if k in ("local", "mem"):
            return "self" if (tk == "local" and e[1] == ti) else None
        if k == "phi":
            cs = {self.canon(body, tracked, x, depth + 1) for x in e[1]}
            if len(cs) == 1:
                return cs.pop()
            # `if heap_or_static { self.0 as *mut u8 } else { self as *mut _ as *mut u8 }`: a pointer
            # that is the storage pointer on some arm is judged as the storage pointer
            for c in ("bufptr", "alloc", "derived", "header"):
                if c in cs and cs <= {c, "self", None}:
                    return c
            return None
        if k in ("ref", "rawptr"):
            return self.canon(body, tracked, e[2], depth + 1)
        if k == "deref":
            c = self.canon(body, tracked, e[1], depth + 1)
            return c if c in ("self", "header", "derived") else None
        if k == "cast":
            if e[1] in ("PtrToPtr", "Transmute") or e[1].startswith("PointerCoercion"):
                return self.canon(body, tracked, e[2], depth + 1)
            return None
        if k == "field":
            if tracked[0] == "upvar":
                # closure environment: (*_1).k is a captured reference to the handle
                base = strip_refs(e[1])
                while base[0] == "deref":
                    base = strip_refs(base[1])
                if base == ("param", 1) and e[2] == tracked[1]:
                    return "self"
            c = self.canon(body, tracked, e[1], depth + 1)
            if c == "self":
                # which type is e[1]?  LeanString.0 is the Repr itself; Repr.0 / HeapBuffer.ptr
                # is the buffer pointer.
                ty = self.type_of_self_expr(body, tracked, e[1])
                if ty == "LeanString" and e[2] == 0:
                    return "self"
                if e[2] == 0 and ty in ("repr::Repr", "repr::heap_buffer::HeapBuffer", "repr::static_buffer::StaticBuffer"):
                    return "bufptr"
                return None
            if c == "header" and (("atomic::Atomic" in e[3]) if (len(e) > 3 and e[3]) else e[2] == 0):
                return "counter"
            if c in ("header", "derived"):
                if len(e) > 3 and e[3] and _pointee(e[3]) == "repr::heap_buffer::Header":
                    return "header"
                return "derived"
            return None
        if k == "call":
            t = body.term(e[1])
            n = callee_name(t)
            args = [body.origin_operand(a) for a in t["args"]]
            a0 = self.canon(body, tracked, args[0], depth + 1) if args else None
            if a0 == "self" and (n in VIEW_FNS or self._view_kind(body, t, n)):
                return "self"
            # what the result points to decides what it is, whatever the accessor is called: the
            # header of this handle's allocation, or the reference counter inside it
            if a0 in ("self", "header", "bufptr", "alloc", "derived") and not t["dest"]["p"] and (t.get("local_key") or n.startswith("core::ptr::")):
                pt = _pointee(body.local_ty(t["dest"]["l"]))
                if pt == "repr::heap_buffer::Header" and body.local_ty(t["dest"]["l"]).strip()[0] in "&*":
                    return "header"
                if "atomic::Atomic" in pt and t.get("local_key"):
                    return "counter"
            if n in PTR_TRANSPARENT and a0 is not None:
                return a0
            if n == "repr::heap_buffer::HeapBuffer::reference_count" and a0 == "self":
                return "counter"
            if n == "repr::heap_buffer::HeapBuffer::header" and a0 == "self":
                return "header"

            if n in ("core::ptr::NonNull::<T>::as_ptr", "core::ptr::non_null::NonNull::<T>::as_ptr") and a0 == "bufptr":
                return "bufptr"
            if (n.startswith("core::ptr::mut_ptr::<impl *mut T>::") or n.startswith("core::ptr::const_ptr::<impl *const T>::")) and a0 in ("bufptr", "alloc"):
                if n.rsplit("::", 1)[1] in ("add", "sub", "offset", "cast", "cast_mut", "cast_const", "wrapping_add", "wrapping_sub", "byte_add", "byte_sub"):
                    return a0
            if n.startswith("core::ptr::non_null::NonNull::<T>::") and a0 == "bufptr":
                if n.rsplit("::", 1)[1] in ("add", "sub", "cast", "as_ptr", "offset"):
                    return "bufptr"
            # any other local fn that takes the handle (or memory derived from it) and returns a
            # reference / pointer hands out memory reachable from the handle
            if t.get("local_key") and a0 in ("self", "header", "bufptr", "alloc", "derived") and not t["dest"]["p"]:
                dty = body.local_ty(t["dest"]["l"]).strip()
                if dty.startswith("&") or dty.startswith("*") or dty.startswith("core::ptr::non_null::NonNull"):
                    return "derived"
            if (n.startswith("core::ptr::mut_ptr::<impl *mut T>::") or n.startswith("core::ptr::const_ptr::<impl *const T>::") or n.startswith("core::ptr::non_null::NonNull::<T>::")) and a0 in ("derived", "header"):
                return "derived"
            # slice / str methods that return a pointer or a sub-view of the view they are given
            # (as_mut_ptr, as_bytes_mut, get_unchecked_mut, index_mut, split_at_mut ...)
            if a0 in ("derived", "header", "bufptr", "alloc") and not t["dest"]["p"] and (n.startswith("core::str::") or n.startswith("core::slice::") or n.startswith("core::ops::index::") or n.startswith("<[") or n.startswith("<str as ")):
                dty = body.local_ty(t["dest"]["l"]).strip()
                if dty.startswith("&") or dty.startswith("*") or dty.startswith("("):
                    return "derived"
            return None
        return None

    def type_of_self_expr(self, body, tracked, e):
        """Type (base) of a place-expression that canonicalises to 'self'."""
        e = strip_refs(e)
        k = e[0]
        if k == "field" and tracked[0] == "upvar" and len(e) > 3 and e[3]:
            base = strip_refs(e[1])
            while base[0] == "deref":
                base = strip_refs(base[1])
            if base == ("param", 1) and e[2] == tracked[1]:
                return base_type(e[3])
        if k == "param" or k in ("local", "mem"):
            return base_type(body.local_ty(e[1]))
        if k in ("ref", "rawptr"):
            return self.type_of_self_expr(body, tracked, e[2])
        if k == "deref":
            return self.type_of_self_expr(body, tracked, e[1])
        if k == "cast":
            return base_type(e[3])
        if k == "field":
            inner = self.type_of_self_expr(body, tracked, e[1])
            if inner == "LeanString" and e[2] == 0:
                return "repr::Repr"
            return None
        if k == "call":
            t = body.term(e[1])
            return base_type(body.local_ty(t["dest"]["l"])) if not t["dest"]["p"] else None
        if k == "phi":
            return self.type_of_self_expr(body, tracked, e[1][0])
        return None

    # ------------------------------------------------------------------ small evaluators
    def eval_int(self, e):
        k = e[0]
        if k == "const":
            return e[2] if isinstance(e[2], int) else None
        if k == "cast" and e[1] == "IntToInt":
            return self.eval_int(e[2])
        if k == "field" and e[1][0] == "bin" and e[1][1].endswith("WithOverflow") and e[2] == 0:
            a, b = self.eval_int(e[1][2]), self.eval_int(e[1][3])
            if a is None or b is None:
                return None
            return {"AddWithOverflow": a + b, "SubWithOverflow": a - b, "MulWithOverflow": a * b}[e[1][1]]
        if k == "bin" and e[1] in ("Add", "Sub", "Mul", "BitOr", "BitAnd"):
            a, b = self.eval_int(e[2]), self.eval_int(e[3])
            if a is None or b is None:
                return None
            return {"Add": a + b, "Sub": a - b, "Mul": a * b, "BitOr": a | b, "BitAnd": a & b}[e[1]]
        return None

    def const_bool_fn(self, path, depth=0):
        """Possible return values of a bool fn, by inspection of its body: constants assigned to
        the return place, or tail calls to other such fns; anything else -> {True, False}."""
        b = self.F.bodies.get(path)
        if b is None or depth > 4:
            return {True, False}
        vals = set()
        for (bb, si, x) in b.defs.get(0, []):
            if si == "term":
                k = x.get("local_key")
                vals |= self.const_bool_fn(k, depth + 1) if k else {True, False}
            else:
                e = b.origin_rvalue(x)
                if e[0] == "const" and isinstance(e[2], int):
                    vals.add(bool(e[2]))
                else:
                    vals |= {True, False}
        return vals or {True, False}

    def unwrap_payload(self, body, e):
        """Peel `Ok`/`Continue`/`Some` payload projections back to the producing call:
        ((x as v).0) where x = Try::branch(call f) or x = call f.   -> (call_bb, variant) or None"""
        e = strip_refs(e)
        seen = 0
        while e[0] == "field" and e[1][0] == "downcast" and seen < 4:
            variant = e[1][2]
            inner = strip_refs(e[1][1])
            if inner[0] == "mem":
                # result locals are single-assigned by the call but matched by reference
                ds = body.defs.get(inner[1], [])
                if len(ds) == 1 and ds[0][1] == "term":
                    inner = ("call", ds[0][0])
            if inner[0] == "call":
                t = body.term(inner[1])
                n = callee_name(t)
                if n.endswith("::branch") and "Try" in (t.get("callee") or ""):
                    a0 = strip_refs(body.origin_operand(t["args"][0]))
                    if a0[0] == "call":
                        return (a0[1], "Ok" if variant == 0 else "Err")
                    e = a0
                    seen += 1
                    continue
                return (inner[1], variant)
            e = inner
            seen += 1
        return None

    # ------------------------------------------------------------------ new-value classification
    def _fresh_heap_ctor(self, n):
        """a function of the crate that hands back a newly allocated HeapBuffer: returns HeapBuffer /
        Result<HeapBuffer, _> and takes no existing buffer or handle (HeapBuffer has no Clone: a by-value
        HeapBuffer that does not come from a handle can only be fresh; DUP / OWNPRIM audit the copies)"""
        f = self.F.fns.get(n)
        if not f:
            return False
        out = (f.get("output") or "").strip()
        if not (out == "repr::heap_buffer::HeapBuffer" or out.startswith("core::result::Result<repr::heap_buffer::HeapBuffer,")):
            return False
        return not any(("HeapBuffer" in (a or "")) or ("repr::Repr" in (a or "")) or ("LeanString" in (a or "")) for a in f.get("inputs", []))

    def classify_new_value(self, body, tracked, e):
        """For `*self = X` / replace_inner(self, X): what does X own?
        -> (list of (kind, uniq), value_preserving: bool, description)"""
        e = strip_refs(e)
        if e[0] == "param":
            for (pi, kinds, vp, desc) in self.pclass_stack[-1]:
                if pi == e[1]:
                    return (list(kinds), vp, "caller-supplied " + desc)
        if e[0] == "mem":
            # a local that was also borrowed mutably (e.g. `new_buf.set_len(..)`): still the same
            # object; classify by its single whole definition
            ds = body.defs.get(e[1], [])
            if len(ds) == 1:
                e = ("call", ds[0][0]) if ds[0][1] == "term" else strip_refs(body.origin_rvalue(ds[0][2]))
        if e[0] == "call":
            t = body.term(e[1])
            n = callee_name(t)
            args = [strip_refs(body.origin_operand(a)) for a in t["args"]]
            if self._fresh_heap_ctor(n):
                return ([("H", True)], False, n)
            if n == "repr::Repr::from_heap":
                src = self.unwrap_payload(body, args[0]) if args else None
                hb = None
                if src:
                    hb = src[0]
                elif args and args[0][0] == "call":
                    hb = args[0][1]
                if hb is not None:
                    ht = body.term(hb)
                    hn = callee_name(ht)
                    if self._fresh_heap_ctor(hn):
                        vp = False
                        if hn != "repr::heap_buffer::HeapBuffer::with_capacity":
                            vp = self.is_text_of_self(body, tracked, body.origin_operand(ht["args"][0]))
                        return ([("H", True)], vp, hn)
                # any other by-value HeapBuffer: such values are produced only by the fresh constructors
                # (no Clone/Copy impl, bitwise copies and transmutes are audited by DUP / OWNPRIM), unless
                # it is a copy of the tracked handle itself
                if args and self.canon(body, tracked, args[0]) is None:
                    return ([("H", True)], False, "from_heap(<owned HeapBuffer value>)")
                return ([("H", False)], False, "from_heap(?)")
            if n == "repr::Repr::from_inline":
                vp = False
                if args and args[0][0] == "call":
                    it = body.term(args[0][1])
                    if callee_name(it) == "repr::inline_buffer::InlineBuffer::new":
                        vp = self.is_text_of_self(body, tracked, body.origin_operand(it["args"][0]))
                return ([("I", True)], vp, "from_inline")
            if n == "repr::Repr::new":
                return ([("I", True)], False, "Repr::new")
            if n == "repr::Repr::from_static":
                return ([("S", True)], False, "from_static")
            if n in ("repr::Repr::from_char", "repr::Repr::from_bool"):
                return ([("I", True)], False, n)
        src = self.unwrap_payload(body, e)
        if src:
            t = body.term(src[0])
            n = callee_name(t)
            if n.startswith("core::result::Result::<T, E>::map") and len(t["args"]) == 2:
                # HeapBuffer::new(..).map(Repr::from_heap)? : classify through the mapped constructor
                f = strip_refs(body.origin_operand(t["args"][1]))
                inner = strip_refs(body.origin_operand(t["args"][0]))
                if f[0] == "fn" and (f[3] or f[1]) == "repr::Repr::from_heap" and inner[0] == "call":
                    hn = callee_name(body.term(inner[1]))
                    if self._fresh_heap_ctor(hn):
                        vp = hn != "repr::heap_buffer::HeapBuffer::with_capacity" and self.is_text_of_self(body, tracked, body.origin_operand(body.term(inner[1])["args"][0]))
                        return ([("H", True)], vp, hn)
            if n == "repr::Repr::from_str":
                vp = self.is_text_of_self(body, tracked, body.origin_operand(t["args"][0]))
                return ([("I", True), ("H", True)], vp, n)
            if n in ("repr::Repr::with_capacity", "repr::Repr::from_num"):
                return ([("I", True), ("H", True)], False, n)
            if self._fresh_heap_ctor(n):
                return ([("H", True)], False, n)
            if n == "repr::Repr::from_static_str":
                return ([("I", True), ("S", True)], False, n)
        return ([("I", False), ("S", False), ("H", False)], False, "unknown")

    def is_text_of_self(self, body, tracked, e):
        """e is as_str()/as_bytes() of the tracked object (the text it currently holds)."""
        e = strip_refs(e)
        if e[0] == "call":
            t = body.term(e[1])
            n = callee_name(t)
            if n in ("repr::Repr::as_str", "repr::heap_buffer::HeapBuffer::as_str", "LeanString::as_str"):
                a0 = body.origin_operand(t["args"][0])
                return self.canon(body, tracked, a0) == "self"
        return False

    # ------------------------------------------------------------------ the solver
    def summary(self, body, tracked, t0):
        """-> list of (cls, T) where cls in 'Ok','Err',True,False,'?','unwind',None"""
        key = (body.path, tracked, t0.kind, t0.uniq, t0.ref, t0.acq, t0.inc, dict(t0.facts).get("lenheap"), self.pclass_stack[-1], len(self.entry_stack) == 0)
        if key in self.summaries:
            res, ev = self.summaries[key]
            self.events_stack[-1].update(ev)
            return res
        if key in self.inprogress:
            return [("?", t0)]
        self.inprogress.add(key)
        self.events_stack.append(set())
        try:
            res = self._run(body, tracked, t0)
        finally:
            ev = self.events_stack.pop()
            self.inprogress.discard(key)
        self.summaries[key] = (res, frozenset(ev))
        self.events_stack[-1].update(ev)
        return res

    def walk(self, body, tracked, t0):
        """-> (exit states, events): events = set of (fn, site, callee, local_key|None, descended, line, kind)
        for every call executed on a feasible path of the walk, callees that received the tracked
        object having been walked themselves (descended=True)."""
        self.events_stack.append(set())
        try:
            res = self.summary(body, tracked, t0)
        finally:
            ev = self.events_stack.pop()
        return res, ev

    def _run(self, body, tracked, t0):
        start = t0._replace(asg=False, dirty=False, ret=None, facts=frozenset(f for f in t0.facts if f[0] == "lenheap"))
        self.entry_stack.append(start)
        self.body_stack.append(body.path)
        try:
            return self._run2(body, tracked, start)
        finally:
            self.entry_stack.pop()
            self.body_stack.pop()

    def _run2(self, body, tracked, start):
        instate = {0: {start}}
        work = [0]
        exits = set()
        iters = 0
        while work:
            bb = work.pop()
            iters += 1
            if iters > 20000:
                self.ob("solver", body, "budget", 0, False, detail="typestate solver did not converge")
                break
            cur = set(instate[bb])
            blk = body.blocks[bb]
            # statements
            for si, s in enumerate(blk["stmts"]):
                if s["k"] == "assign":
                    cur = self._assign(body, tracked, bb, si, s, cur)
            outs = self._terminator(body, tracked, bb, cur, exits)
            tt = blk["term"]
            if tt["k"] == "call" and tt.get("target") is not None and not tt["dest"]["p"] and self._multi_bool(body, tt["dest"]["l"]) and tt["target"] in outs:
                # `let in_place = !a() || b();` - the flag's other definitions are constants: remember
                # which value this path gave it (the switch on the flag reads it back)
                L = tt["dest"]["l"]
                split = set()
                for t in outs[tt["target"]]:
                    for v, t2 in self.eval_bool(body, tracked, ("call", bb), t):
                        split.add(t2._replace(facts=frozenset(f for f in t2.facts if f[0] != ("bv", L)) | {(("bv", L), bool(v))}))
                outs[tt["target"]] = split
            for tgt, ts in outs.items():
                old = instate.get(tgt)
                if old is None:
                    instate[tgt] = set(ts)
                    work.append(tgt)
                else:
                    n0 = len(old)
                    old |= ts
                    if len(old) != n0 and tgt not in work:
                        work.append(tgt)
        return sorted(exits, key=repr)

    def _multi_bool(self, body, l):
        return (body.local_ty(l) or "") == "bool" and len(body.defs.get(l, [])) > 1

    # -- statements
    def _assign(self, body, tracked, bb, si, s, cur):
        lhs = s["lhs"]
        out = set()
        if not lhs["p"] and lhs["l"] != 0 and self._multi_bool(body, lhs["l"]):
            L = lhs["l"]
            rv = s["rv"]
            for t in cur:
                if rv["k"] == "use" and "c" in rv["a"] and "scalar" in rv["a"]["c"]:
                    vals = [(bool(rv["a"]["c"]["scalar"]), t)]
                else:
                    try:
                        vals = list(self.eval_bool(body, tracked, body.origin_rvalue(rv), t))
                    except Exception:
                        vals = []
                if not vals:
                    out.add(t._replace(facts=frozenset(f for f in t.facts if f[0] != ("bv", L))))
                for v, t2 in vals:
                    out.add(t2._replace(facts=frozenset(f for f in t2.facts if f[0] != ("bv", L)) | {(("bv", L), bool(v))}))
            return out
        lhs_e = body._apply_proj(("param", lhs["l"]) if (tracked[0] == "param" and lhs["l"] == tracked[1]) else body.origin_local(lhs["l"]) if lhs["p"] else ("local", lhs["l"]), lhs["p"], ())
        whole = False
        partial = False
        if lhs["p"]:
            c = self.canon(body, tracked, lhs_e)
            if c == "self":
                whole = True
            elif c in ("derived", "header", "bufptr", "alloc", "counter"):
                # a plain store into memory reachable from the handle (header word, buffer byte)
                partial = True
            else:
                # a projection below self?
                pe = lhs_e
                while pe[0] in ("field", "index", "downcast"):
                    pe = pe[1]
                    if self.canon(body, tracked, pe) in ("self", "derived", "header"):
                        partial = True
                        break
        else:
            if tracked[0] == "local" and lhs["l"] == tracked[1]:
                whole = True
        if lhs["l"] == 0 and not lhs["p"]:
            # return place classification
            rv = body.origin_rvalue(s["rv"])
            for t in cur:
                for cls, t2 in self._classify_ret(body, tracked, rv, t):
                    out.add(t2._replace(ret=cls))
            return out
        if whole:
            rv = body.origin_rvalue(s["rv"])
            kinds, vp, desc = self.classify_new_value(body, tracked, rv)
            site = "assign-self#%d" % self._assign_ord(body, bb, si)
            for t in cur:
                bad = (t.kind == "H" and t.ref == "own")
                self.ob("R3", body, site, s.get("line", 0), not bad, how="old value holds no counted reference (kind=%s ref=%s)" % (t.kind, t.ref),
                        detail="plain overwrite of a handle that still owns a counted heap reference (kind=H ref=own); new value: %s" % desc)
                if t.kind == "H":
                    self.ob("P5", body, site, s.get("line", 0), t.ref not in ("rel", "last"), how="old value's release was decided (ref=%s)" % t.ref,
                            detail="handle overwritten in state ref=%s: its reference was given up by a decrement whose result %s, so when the other owners drop theirs first nobody frees the buffer" % (t.ref, "was not examined" if t.ref == "rel" else "said 'last owner' but the buffer was not freed"))
                for (k, u) in kinds:
                    out.add(t._replace(kind=k, uniq=u, ref="own", acq=False, asg=True, dirty=t.dirty or not vp))
            return out
        if partial:
            c0 = self.canon(body, tracked, lhs_e)
            for t in cur:
                if t.ref in ("rel", "notlast", "freed"):
                    self.ob("R1", body, "field-write#%d" % self._assign_ord(body, bb, si), s.get("line", 0), False,
                            detail="handle field written in state ref=%s" % t.ref)
                if c0 in ("bufptr", "alloc", "derived") and t.kind in ("S", "H"):
                    # `*ptr.add(i) = byte`: a raw store through the storage pointer
                    good = t.kind == "H" and t.ref == "own" and t.uniq
                    self.ob("R-contract.write", body, "store#%d" % self._assign_ord(body, bb, si), s.get("line", 0), good, how="raw store into exclusively owned heap storage",
                            detail="a store through the handle's storage pointer in state kind=%s uniq=%s ref=%s: the bytes are %s" % (t.kind, t.uniq, t.ref, "borrowed static text" if t.kind == "S" else "shared with other handles"))
                out.add(t._replace(dirty=True))
            return out
        return cur

    def _assign_ord(self, body, bb, si):
        n = 0
        for bi, blk in enumerate(body.blocks):
            for sj, s in enumerate(blk["stmts"]):
                if s["k"] == "assign" and s["lhs"]["p"]:
                    if (bi, sj) == (bb, si):
                        return n
                    n += 1
        return n

    def _classify_ret(self, body, tracked, rv, t):
        rv = strip_refs(rv) if rv[0] in ("ref", "cast") else rv
        if rv[0] == "agg":
            if rv[1] == "core::result::Result":
                return [(rv[2], t)]
            if rv[1] == "core::option::Option":
                return [(rv[2], t)]
            a = self.F.adts.get(rv[1])
            if a and a["kind"] == "enum" and not rv[3]:
                # a local field-less enum value (e.g. a storage-kind classifier): remember which
                for v in a["variants"]:
                    if v["name"] == rv[2]:
                        return [(("enum", v.get("discr")), t)]
        if rv[0] == "const" and rv[1] == "bool":
            return [(bool(rv[2]), t)]
        if rv[0] == "call":
            f = dict((a, b) for (a, b) in t.facts if isinstance(a, int))
            if rv[1] in f:
                return [(f[rv[1]], t)]
            tt = body.term(rv[1])
            n = callee_name(tt)
            if "from_residual" in n:
                return [("Err", t)]
            if n.startswith("core::result::Result::<T, E>::map") or n.startswith("core::option::Option::<T>::ok_or") or n.startswith("core::option::Option::<T>::map"):
                a0 = strip_refs(body.origin_operand(tt["args"][0]))
                if a0[0] == "call" and a0[1] in f:
                    v = f[a0[1]]
                    v = {"Some": "Ok", "None": "Err"}.get(v, v)
                    return [(v, t)]
            return [("?", t)]
        if rv[0] in ("bin", "un"):
            return [(v, t2) for (v, t2) in self.eval_bool(body, tracked, rv, t)]
        return [("?", t)]

    # -- boolean evaluation under a tuple
    def eval_bool(self, body, tracked, e, t):
        """-> list of (True|False, T)"""
        e0 = e
        e = strip_refs(e) if e[0] in ("ref",) else e
        k = e[0]
        if k == "const":
            if isinstance(e[2], int):
                return [(bool(e[2]), t)]
            return [(True, t), (False, t)]
        if k == "un" and e[1] == "Not":
            return [(not v, t2) for (v, t2) in self.eval_bool(body, tracked, e[2], t)]
        if k == "call":
            f = dict((a, b) for (a, b) in t.facts if isinstance(a, int))
            if e[1] in f and isinstance(f[e[1]], bool):
                return [(f[e[1]], t)]
            return [(True, t), (False, t)]
        if k == "phi":
            # a bool local assigned on several paths (`a || b`, `if c { x } else { y }`): the paths'
            # own guards already refined the tuple on the way here; nothing more to learn
            return [(True, t), (False, t)]
        if k == "bin" and e[1] in ("Eq", "Ne", "Lt", "Le", "Gt", "Ge"):
            op, a, b = e[1], strip_refs(e[2]), strip_refs(e[3])
            ca, cb = self.eval_int(a), self.eval_int(b)
            if ca is not None and cb is None:
                # normalise: constant on the right
                flip = {"Eq": "Eq", "Ne": "Ne", "Lt": "Gt", "Le": "Ge", "Gt": "Lt", "Ge": "Le"}
                op, a, b, ca, cb = flip[op], b, a, cb, ca
            # (x - c1) == c2  <=>  x == c1 + c2   (also written x.wrapping_sub(c1) == c2)
            if cb is not None and op in ("Eq", "Ne"):
                if a[0] == "call" and callee_name(body.term(a[1])).endswith("::wrapping_sub"):
                    wa = [strip_refs(body.origin_operand(x)) for x in body.term(a[1])["args"]]
                    c1 = self.eval_int(wa[1]) if len(wa) == 2 else None
                    if c1 is not None:
                        a, cb = wa[0], cb + c1
                elif a[0] == "bin" and a[1] in ("Sub", "SubUnchecked") and self.eval_int(strip_refs(a[3])) is not None:
                    a, cb = strip_refs(a[2]), cb + self.eval_int(strip_refs(a[3]))
                elif a[0] == "field" and a[1][0] == "bin" and a[1][1] == "SubWithOverflow" and a[2] == 0 and self.eval_int(strip_refs(a[1][3])) is not None:
                    a, cb = strip_refs(a[1][2]), cb + self.eval_int(strip_refs(a[1][3]))
            if cb is not None and a[0] == "call":
                tt = body.term(a[1])
                n = callee_name(tt)
                args = [body.origin_operand(x) for x in tt["args"]]
                c0 = self.canon(body, tracked, args[0]) if args else None
                # reference-count probes
                if n.endswith("::fetch_sub") and c0 == "counter" and cb == 1 and op in ("Eq", "Ne"):
                    if t.ref == "rel":
                        yes = t._replace(ref="last", uniq=True)
                        no = t._replace(ref="notlast", uniq=False)
                        return [(op == "Eq", yes), (op != "Eq", no)]
                    return [(True, t), (False, t)]
                if n.endswith("::load") and c0 == "counter" and cb == 1 and op in ("Eq", "Ne"):
                    ordn = self._ordering(body, args[1]) if len(args) > 1 else None
                    good = ordn in ACQ
                    self.ob("P3", body, "probe:" + self.site_name(body, a[1]), body.line(a[1]), good,
                            how="uniqueness probe load(%s)" % ordn,
                            detail="uniqueness probe uses load(%s): a write licensed by it is not ordered after the other handles' releases" % ordn)
                    yes = t._replace(uniq=True, acq=True) if t.kind == "H" and t.ref == "own" else t
                    return [(op == "Eq", yes), (op != "Eq", t._replace(uniq=False) if t.kind == "H" else t)]
                # storage-kind tests on the tag byte
                if n == "repr::Repr::last_byte" and c0 == "self":
                    return self._kind_test(op, cb, t)
        return [(True, t), (False, t)]

    def _kind_test(self, op, k, t):
        """last_byte(self) <op> k, with tag bytes: inline < HeapMarker < StaticMarker."""
        hm, sm = self.heap_marker, self.static_marker
        byte = {"H": (hm, hm), "S": (sm, sm), "I": (0, hm - 1), "U": (0, 255)}[t.kind]
        lo, hi = byte
        import operator
        f = {"Eq": operator.eq, "Ne": operator.ne, "Lt": operator.lt, "Le": operator.le, "Gt": operator.gt, "Ge": operator.ge}[op]
        vals = {f(lo, k), f(hi, k)}
        if op in ("Eq", "Ne") and lo < k < hi:
            vals = {True, False}
        if t.kind == "U":
            vals = {True, False}
        return [(v, t) for v in vals]

    def _ordering(self, body, e):
        e = strip_refs(e)
        if e[0] == "agg" and e[1] == "core::sync::atomic::Ordering":
            return e[2]
        if e[0] == "const" and e[3]:
            return e[3].rsplit("::", 1)[-1]
        return None

    # -- terminators
    def _terminator(self, body, tracked, bb, cur, exits):
        t = body.term(bb)
        k = t["k"]
        outs = {}

        def add(tgt, ts):
            if ts:
                outs.setdefault(tgt, set()).update(ts)

        if k == "goto":
            add(t["target"], cur)
        elif k == "return":
            for s in cur:
                self._exit_checks(body, tracked, bb, s, "return")
                exits.add((s.ret, self._repair(s)._replace(facts=frozenset())))
        elif k in ("resume", "terminate"):
            for s in cur:
                self._exit_checks(body, tracked, bb, s, "unwind")
                exits.add((self._unwind_cls(s), self._repair(s)._replace(facts=frozenset())))
        elif k == "unreachable":
            pass
        elif k == "drop":
            cur2 = self._drop_guard(body, tracked, bb, t, cur)
            if t.get("local_drops") and t["pl"]["p"]:
                # `*self = value` on a type with drop glue is drop-then-write: the old value's own
                # Drop impl runs here on the tracked handle
                pl = t["pl"]
                base = ("param", pl["l"]) if (tracked[0] == "param" and pl["l"] == tracked[1]) else body.origin_local(pl["l"])
                pe = body._apply_proj(base, pl["p"], ())
                if self.canon(body, tracked, pe) == "self":
                    nxt = set()
                    for dk in t["local_drops"]:
                        db = self.F.bodies.get(dk)
                        if db is None:
                            continue
                        for s0 in cur2:
                            self.ctx_stack.append(body.path)
                            self.pclass_stack.append(())
                            try:
                                res = self.summary(db, ("param", 1), s0)
                            finally:
                                self.ctx_stack.pop()
                                self.pclass_stack.pop()
                            for cls, s2 in res:
                                if isinstance(cls, str) and cls.startswith("unwind"):
                                    continue
                                nxt.add(s0._replace(kind=s2.kind, uniq=s2.uniq, ref=s2.ref, acq=s2.acq, inc=s2.inc, asg=True, dirty=True))
                    cur2 = nxt or cur2
            add(t["target"], cur2)
            if isinstance(t["unwind"], int):
                add(t["unwind"], cur2)
        elif k == "assert":
            add(t["target"], cur)
            if isinstance(t["unwind"], int):
                add(t["unwind"], cur)
        elif k == "switch":
            self._switch(body, tracked, bb, t, cur, add)
        elif k == "call":
            self._call(body, tracked, bb, t, cur, add, exits)
        else:
            pass
        return outs

    def _drop_guard(self, body, tracked, bb, t, cur):
        """Dropping a local whose type has a local Drop impl and which holds the tracked handle in a
        field (a scope guard such as retain's SetLenOnDrop, or a release-on-drop guard): its Drop body
        runs here, in the current state, on that field."""
        if not t.get("local_drops") or t["pl"]["p"]:
            return cur
        return self._drop_effects(body, tracked, t["pl"]["l"], t["local_drops"], cur)

    def _drop_effects(self, body, tracked, g, local_drops, cur):
        ds = body.defs.get(g, [])
        if len(ds) != 1 or ds[0][1] == "term" or ds[0][2]["k"] != "aggregate":
            return cur
        fields = ds[0][2]["fields"]
        self_fields = [i for i, f in enumerate(fields) if self.canon(body, tracked, body.origin_operand(f)) == "self"]
        if not self_fields:
            return cur
        out = set(cur)
        for dk in local_drops:
            db = self.F.bodies.get(dk)
            if db is None:
                continue
            for i in self_fields:
                nxt = set()
                for s0 in out:
                    self.ctx_stack.append(body.path)
                    self.pclass_stack.append(())
                    try:
                        res = self.summary(db, ("upvar", i), s0)
                    finally:
                        self.ctx_stack.pop()
                        self.pclass_stack.pop()
                    for cls, s2 in res:
                        if isinstance(cls, str) and cls.startswith("unwind"):
                            continue
                        nxt.add(s0._replace(kind=s2.kind, uniq=s2.uniq, ref=s2.ref, acq=s2.acq, inc=s2.inc, asg=s0.asg or s2.asg, dirty=s0.dirty or s2.dirty))
                out = nxt or out
        return out

    def _repair(self, s):
        """after a violation was reported at an exit, hand callers a consistent tuple so the same
        defect is not reported again up the call chain"""
        if len(self.entry_stack) > 1:
            return s
        if s.ret == "Err" and s.dirty:
            # reported as R-erratomic in this frame; callers see a clean failure
            s = s._replace(dirty=False)
        if s.ref != "own":
            return s._replace(ref="own", inc=0)
        if s.inc:
            return s._replace(inc=0)
        return s

    # unsafe fns whose documented job is to free the buffer: they exit in state 'freed' by contract
    FREES = {"repr::heap_buffer::HeapBuffer::dealloc": "frees the allocation; every caller overwrites or forgets the handle next (checked at the caller's own exits)"}

    def _exit_checks(self, body, tracked, bb, s, how):
        if s.kind == "U":
            return
        if len(self.entry_stack) > 1:
            # nested frame: its exit state flows back to the caller through the summary; balance
            # is judged where the API call returns (helper extraction must not matter)
            return
        site = "exit:%s" % how if how == "unwind" else "exit:return(%s)" % (s.ret if s.ret in ("Ok", "Err") else "-")
        bad = s.ref != "own"
        self.ob("R2", body, site, body.line(bb), not bad, how="ref=own",
                detail="function exits (%s) in state ref=%s kind=%s: the handle still names a buffer whose reference it gave up" % (how, s.ref, s.kind))
        if how == "unwind" and ("allocpanic", True) in s.facts and tracked[0] == "param" and body.local_ty(tracked[1]).startswith("&mut"):
            self.ob("R-panicatomic", body, "exit:alloc-panic", body.line(bb), not s.dirty, how="no effect before the allocation-failure panic",
                    detail="the panic taken when the allocator refuses memory is reached with the receiver already changed (dirty=%s kind=%s): the plain form does not leave the value it was given" % (s.dirty, s.kind))
        if how == "return":
            self.ob("P1", body, "exit:inc", body.line(bb), s.inc == 0, how="increments consumed",
                    detail="reference count incremented without producing a new handle (inc=%d at return)" % s.inc)
            if s.ret == "Err":
                ok = (not s.dirty) and s.ref == "own"
                self.ob("R-erratomic", body, "exit:Err", body.line(bb), ok, how="no effect before Err",
                        detail="Err exit reached with dirty=%s ref=%s (an effect on the receiver precedes the failure)" % (s.dirty, s.ref))
                if tracked[0] == "param" and (body.local_ty(tracked[1]) or "").startswith("&mut"):
                    # the same text in another buffer is still a change the caller can see: the capacity
                    # and the sharing (is this the buffer my clones read?) are not what they were
                    self.ob("R-erratomic", body, "exit:Err(same-buffer)", body.line(bb), not s.asg, how="receiver still names the buffer it had",
                            detail="Err exit reached after the receiver was moved to another buffer (unshared or reallocated copy): the failed call left it with a different capacity / no longer sharing")

    def _switch(self, body, tracked, bb, t, cur, add):
        arms = t["arms"]
        otherwise = t["otherwise"]
        if is_debug_only_switch(body, bb):
            for v, b in arms:
                add(b, cur)
            add(otherwise, cur)
            return
        e = body.origin_operand(t["discr"])
        e = strip_refs(e) if e[0] == "ref" else e
        if t["discr_ty"] == "bool":
            dpl = t["discr"].get("mv") or t["discr"].get("cp")
            flag = None
            for _ in range(4):      # (`switchInt(move _t)` with `_t = copy flag`)
                if not dpl or dpl["p"]:
                    break
                if self._multi_bool(body, dpl["l"]):
                    flag = dpl["l"]
                    break
                ds_ = body.defs.get(dpl["l"], [])
                if len(ds_) == 1 and ds_[0][1] != "term" and ds_[0][2]["k"] == "use":
                    dpl = ds_[0][2]["a"].get("mv") or ds_[0][2]["a"].get("cp")
                else:
                    break
            for s in cur:
                known = [f[1] for f in s.facts if f[0] == ("bv", flag)] if flag is not None else []
                for v, s2 in ([(known[0], s)] if known else self.eval_bool(body, tracked, e, s)):
                    tgt = None
                    for av, ab in arms:
                        if av == (1 if v else 0):
                            tgt = ab
                    if tgt is None:
                        tgt = otherwise
                    add(tgt, {s2})
            return
        if e[0] == "discr":
            inner = strip_refs(e[1])
            while inner[0] in ("ref", "rawptr", "deref"):
                inner = strip_refs(inner[2] if inner[0] != "deref" else inner[1])
            if inner[0] == "field" and len(inner) > 3 and inner[3] and base_type(inner[3]) == "repr::last_byte::LastByte" and self.canon(body, tracked, inner[1]) == "self":
                # `matches!(self.2, LastByte::HeapMarker)`: the tag byte read as the enum it is
                hm, sm = self.heap_marker, self.static_marker
                for s in cur:
                    lo, hi = {"H": (hm, hm), "S": (sm, sm), "I": (0, hm - 1), "U": (0, 255)}[s.kind]
                    vals = {v for v, _ in arms}
                    for av, ab in arms:
                        if lo <= av <= hi:
                            add(ab, {s})
                    if any(x not in vals for x in range(lo, hi + 1)):
                        add(otherwise, {s})
                return
            inner = strip_refs(e[1])
            if inner[0] == "mem":
                ds = body.defs.get(inner[1], [])
                if len(ds) == 1 and ds[0][1] == "term":
                    inner = ("call", ds[0][0])
            if inner[0] == "field":
                up = self.unwrap_payload(body, inner)
                if up is not None:
                    routed = False
                    for s in cur:
                        f = dict((a, b) for (a, b) in s.facts if isinstance(a, int))
                        c0 = f.get(up[0])
                        if isinstance(c0, str) and ":" in c0 and c0.split(":")[0] == ("Ok" if up[1] in ("Ok", 0) else "Err"):
                            sub = c0.split(":")[1]
                            want = {"None": 0, "Some": 1, "Ok": 0, "Err": 1}.get(sub)
                            tg = otherwise
                            for av, ab in arms:
                                if av == want:
                                    tg = ab
                            add(tg, {s})
                        else:
                            for av, ab in arms:
                                add(ab, {s})
                            add(otherwise, {s})
                        routed = True
                    if routed:
                        return
            if inner[0] == "call":
                ct = body.term(inner[1])
                n = callee_name(ct)
                src = None
                is_try = n.endswith("::branch")
                if is_try:
                    a0 = strip_refs(body.origin_operand(ct["args"][0]))
                    if a0[0] == "call":
                        src = a0[1]
                else:
                    src = inner[1]
                if src is not None:
                    dty = body.local_ty(ct["dest"]["l"]) if not ct["dest"]["p"] else ""
                    for s in cur:
                        f = dict((a, b) for (a, b) in s.facts if isinstance(a, int))
                        cls = f.get(src)
                        if isinstance(cls, str) and ":" in cls:
                            cls = cls.split(":")[0]
                        if isinstance(cls, tuple) and cls and cls[0] == "enum" and not is_try:
                            tgt = otherwise
                            for av, ab in arms:
                                if av == cls[1]:
                                    tgt = ab
                            add(tgt, {s})
                        elif cls in ("Ok", "Err", "Some", "None"):
                            if is_try:
                                want = 0 if cls in ("Ok", "Some") else 1
                            elif "Option" in dty.split("<")[0]:
                                want = 1 if cls == "Some" else 0
                            else:
                                want = 0 if cls == "Ok" else 1
                            tgt = otherwise
                            for av, ab in arms:
                                if av == want:
                                    tgt = ab
                            add(tgt, {s})
                        else:
                            for av, ab in arms:
                                add(ab, {s})
                            add(otherwise, {s})
                    return
        e2 = strip_refs(e)
        while e2[0] == "cast" and e2[1] == "IntToInt":
            e2 = strip_refs(e2[2])
        tagread = False
        if e2[0] == "call" and callee_name(body.term(e2[1])) == "repr::Repr::last_byte" and body.term(e2[1])["args"]:
            tagread = self.canon(body, tracked, body.origin_operand(body.term(e2[1])["args"][0])) == "self"
        if tagread and t["discr_ty"] in ("u8", "usize", "u32", "u64"):
            # `match self.last_byte() { HEAP_MARKER => .., STATIC_MARKER => .., _ => .. }`
            hm, sm = self.heap_marker, self.static_marker
            for s in cur:
                lo, hi = {"H": (hm, hm), "S": (sm, sm), "I": (0, hm - 1), "U": (0, 255)}[s.kind]
                vals = {v for v, _ in arms}
                for av, ab in arms:
                    if lo <= av <= hi:
                        add(ab, {s._replace(kind=("H" if av == hm else "S" if av == sm else "I")) if s.kind == "U" else s})
                if any(x not in vals for x in range(lo, hi + 1)):
                    rest = s
                    if s.kind == "U" and hm in vals and sm in vals:
                        rest = s._replace(kind="I")
                    add(otherwise, {rest})
            return
        e2 = strip_refs(e)
        if e2[0] == "call" and t["discr_ty"] in ("usize", "u64", "u32"):
            ct = body.term(e2[1])
            cn = callee_name(ct)
            if cn.startswith("core::sync::atomic::") and cn.rsplit("::", 1)[1] in ("load", "fetch_sub"):
                # switchInt on the counter value: arm `1` is `== 1`, everything else `!= 1`
                for s in cur:
                    for v, s2 in self.eval_bool(body, tracked, ("bin", "Eq", e2, ("const", t["discr_ty"], 1, None)), s):
                        if v:
                            tg = [ab for av, ab in arms if av == 1]
                            add(tg[0] if tg else otherwise, {s2})
                        else:
                            for av, ab in arms:
                                if av != 1:
                                    add(ab, {s2})
                            add(otherwise, {s2})
                return
        for av, ab in arms:
            add(ab, cur)
        add(otherwise, cur)

    def _setfact(self, s, key, val):
        fs = frozenset(f for f in s.facts if f[0] != key) | {(key, val)}
        return s._replace(facts=fs)

    def _call(self, body, tracked, bb, t, cur, add, exits):
        n = callee_name(t)
        args = [body.origin_operand(a) for a in t["args"]]
        can = [self.canon(body, tracked, a) for a in args]
        tgt = t["target"]
        site = self.site_name(body, bb)
        line = t.get("line", 0)
        dest0 = (t["dest"]["l"] == 0 and not t["dest"]["p"])

        dest = t["dest"]
        dest_is_self = (not dest["p"] and tracked[0] == "local" and dest["l"] == tracked[1])
        if cur:
            will_descend = bool([c for c in can if c == "self"]) and bool(t.get("local_key")) and not self._view_kind(body, t, n)
            kinds = "".join(sorted({s.kind for s in cur}))
            self.events_stack[-1].add((body.path, site, n, t.get("local_key"), will_descend, line, kinds, t.get("inst_crate") or t.get("callee_crate")))
            for m in t.get("mono_calls", []):
                self.events_stack[-1].add((body.path, site + "/mono", m["inst_def"], m.get("local_key"), False, line, kinds, m.get("inst_crate")))

        in_debug = bb in body.debug_only_blocks()
        cur0 = set(cur)

        def finish(states):
            """route to the return block (and note tail-call result class)"""
            if tgt is None:
                return
            if in_debug and not dest0 and not dest_is_self:
                # a call that exists only under debug assertions (`debug_assert!(self.is_unique())`)
                # checks, it does not establish: what it would tell about the state is not carried on
                # (the obligations inside it were still recorded)
                add(tgt, {x._replace(facts=frozenset(f for f in x.facts if f[0] != bb)) for x in cur0})
                return
            if dest_is_self:
                kinds, vp, desc = self.classify_new_value(body, tracked, ("call", bb))
                out = set()
                for s in states:
                    bad = (s.kind == "H" and s.ref == "own")
                    self.ob("R3", body, "assign-self:" + site, line, not bad, how="old value holds no counted reference",
                            detail="call result overwrites a handle that still owns a counted heap reference; new value: %s" % desc)
                    if s.kind == "H":
                        self.ob("P5", body, "assign-self:" + site, line, s.ref not in ("rel", "last"), how="old value's release was decided (ref=%s)" % s.ref,
                                detail="handle overwritten in state ref=%s: the decrement's result does not decide who frees the buffer" % s.ref)
                    for (k, u) in kinds:
                        out.add(s._replace(kind=k, uniq=u, ref="own", acq=False, asg=True, dirty=True))
                states = out
            if dest0:
                out = set()
                for s in states:
                    f = dict((a, b) for (a, b) in s.facts if isinstance(a, int))
                    cls = f.get(bb, "?")
                    if cls == "?":
                        if n.startswith("core::result::Result::<T, E>::map") or n.startswith("core::option::Option::<T>::ok_or"):
                            a0 = strip_refs(args[0])
                            if a0[0] == "call" and a0[1] in f:
                                cls = {"Some": "Ok", "None": "Err"}.get(f[a0[1]], f[a0[1]])
                        if "from_residual" in n:
                            cls = "Err"
                    out.add(s._replace(ret=cls))
                states = out
            add(tgt, states)

        # ---- user-code / panicking edges are implicit exits
        def unwind_exit(states, why):
            if bb in body.debug_only_blocks():
                return
            for s in states:
                if isinstance(t["unwind"], int):
                    add(t["unwind"], {s})
                elif t["unwind"] == "continue":
                    self._exit_checks(body, tracked, bb, s, "unwind")
                    exits.add((self._unwind_cls(s), self._repair(s)._replace(facts=frozenset())))

        # ---- atomics
        if n.startswith("core::sync::atomic::"):
            leaf = n.rsplit("::", 1)[1]
            if leaf == "fence":
                o = self._ordering(body, args[0])
                finish({s._replace(acq=s.acq or o in ACQ) for s in cur})
                return
            if can and can[0] == "counter":
                o = self._ordering(body, args[2]) if len(args) > 2 else (self._ordering(body, args[1]) if len(args) > 1 else None)
                out = set()
                if leaf == "fetch_sub":
                    self.ob("P2", body, site, line, o in REL, how="fetch_sub(%s)" % o,
                            detail="releasing decrement uses ordering %s (needs Release or stronger)" % o)
                    for s in cur:
                        if s.ref != "own":
                            self.ob("R2", body, site, line, False, detail="second decrement in state ref=%s" % s.ref)
                        out.add(s._replace(ref="rel", acq=(o in ("AcqRel", "SeqCst")), uniq=False))
                    finish(out)
                    return
                if leaf == "fetch_add":
                    for s in cur:
                        if s.ref == "last":
                            acq = s.acq or o in ACQ
                            self.ob("P3", body, site, line, acq, how="rollback fetch_add(%s)" % o,
                                    detail="rollback increment after a last-reference decrement is not an acquire (%s) and no fence precedes it" % o)
                            out.add(s._replace(ref="own", uniq=True, acq=True))
                        elif s.ref == "own":
                            out.add(s._replace(inc=min(s.inc + 1, 2)))
                        else:
                            self.ob("R1", body, site, line, False, detail="counter incremented in state ref=%s (resurrecting a released reference)" % s.ref)
                            out.add(s)
                    finish(out)
                    return
                if leaf == "load":
                    finish(cur)
                    return
                self.ob("P4", body, site, line, False, detail="unexpected atomic operation %s on the reference counter" % leaf)
                finish(cur)
                return
            finish(cur)
            return

        # ---- mem::drop(guard): the guard's Drop runs here
        if n == "core::mem::drop" and t.get("cb_local_adts") and t["args"] and ("mv" in t["args"][0]) and not t["args"][0]["mv"]["p"]:
            dks = [i["items"]["drop"] for i in self.F.impls if i["trait"] == "core::ops::drop::Drop" and i["self"].split("<")[0] in t["cb_local_adts"] and "drop" in i["items"]]
            if dks:
                finish(self._drop_effects(body, tracked, t["args"][0]["mv"]["l"], dks, cur))
                return

        # ---- bitwise duplication
        if n in READ_PRIMS and can and can[READ_PRIMS[n]] == "self":
            out = set()
            for s in cur:
                good = s.kind != "H" or s.inc >= 1
                self.ob("DUP", body, site, line, good, how="non-heap or after increment",
                        detail="bitwise copy of a heap handle without a preceding reference-count increment")
                out.add(s._replace(inc=max(0, s.inc - 1)) if s.kind == "H" else s)
            finish(out)
            return

        # ---- the allocator primitives on this handle's allocation
        if n in ("alloc::alloc::dealloc", "alloc::alloc::realloc") and can and can[0] in ("alloc", "bufptr", "derived"):
            out = set()
            for s in cur:
                if n.endswith("dealloc"):
                    good = s.kind == "H" and ((s.ref == "last" and s.acq) or (s.ref == "own" and s.uniq))
                    self.ob("R-contract.dealloc", body, site, line, good, how="last reference + acquire, or sole owner",
                            detail="buffer freed in state kind=%s ref=%s uniq=%s acq=%s" % (s.kind, s.ref, s.uniq, s.acq))
                    out.add(s._replace(ref="freed"))
                else:
                    good = s.kind == "H" and s.ref == "own" and s.uniq
                    self.ob("R-contract.realloc", body, site, line, good, how="unique owner",
                            detail="buffer reallocated in state kind=%s ref=%s uniq=%s" % (s.kind, s.ref, s.uniq))
                    out.add(s)
            finish(out)
            return

        # ---- library write primitives whose destination is memory reachable from the handle
        if n in WRITE_PRIMS:
            di = WRITE_PRIMS[n]
            if di < len(can) and can[di] in ("derived", "header", "bufptr", "alloc", "self"):
                out = set()
                for s in cur:
                    if s.ref in ("rel", "notlast", "freed"):
                        self.ob("R1", body, site, line, False, detail="write into the buffer in state ref=%s" % s.ref)
                    if can[di] in ("bufptr", "alloc", "derived", "header") and s.kind in ("S", "H"):
                        # a raw write through the storage pointer: the bytes belong to every handle that
                        # shares them (or to the program's static data)
                        good = s.kind == "H" and s.ref == "own" and s.uniq
                        self.ob("R-contract.write", body, site, line, good, how="raw write into exclusively owned heap storage",
                                detail="%s writes through the handle's storage pointer in state kind=%s uniq=%s ref=%s: the bytes are %s" % (n, s.kind, s.uniq, s.ref, "borrowed static text" if s.kind == "S" else "shared with other handles"))
                    out.add(s._replace(dirty=True))
                finish(out)
                return

        # ---- `cond.then(f)` / `cond.then_some(x)`: Some exactly when cond holds
        if n in ("core::bool::<impl bool>::then", "core::bool::<impl bool>::then_some") and args:
            out = set()
            ce = strip_refs(args[0])
            for s in cur:
                for v, s2 in self.eval_bool(body, tracked, ce, s):
                    out.add(self._setfact(s2, bb, "Some" if v else "None"))
            finish(out)
            return
        # ---- Option<Result<T,E>>::transpose: None -> Ok(None); Some(r) -> r.map(Some)
        if n == "core::option::Option::<core::result::Result<T, E>>::transpose" and args:
            a0 = strip_refs(args[0])
            out = set()
            for s in cur:
                f = dict((a, b) for (a, b) in s.facts if isinstance(a, int))
                c0 = f.get(a0[1]) if a0[0] == "call" else None
                if c0 == "None":
                    out.add(self._setfact(s, bb, "Ok:None"))
                elif c0 == "Some":
                    out.add(self._setfact(s, bb, "Ok:Some"))
                    out.add(self._setfact(s, bb, "Err"))
                else:
                    out.add(s)
            finish(out)
            return

        # ---- is_len_on_heap fact (asked of the buffer, or of its length word directly)
        lenq = n == "repr::heap_buffer::HeapBuffer::is_len_on_heap" and can and can[0] == "self"
        if not lenq and n == "repr::heap_buffer::internal::TextLen::is_heap" and args:
            a0 = strip_refs(args[0])
            while a0[0] in ("ref", "rawptr", "deref"):
                a0 = strip_refs(a0[2] if a0[0] != "deref" else a0[1])
            lenq = a0[0] == "field" and self.canon(body, tracked, a0[1]) == "self"
        if lenq:
            out = set()
            vals = self.const_bool_fn(n)
            for s in cur:
                known = dict((a, b) for (a, b) in s.facts if not isinstance(a, int)).get("lenheap")
                for v in sorted(vals if known is None else {known} & vals or {known}):
                    out.add(self._setfact(self._setfact(s, bb, v), "lenheap", v))
            finish(out)
            return

        # ---- calls that receive the tracked object
        self_args = [i for i, c in enumerate(can) if c == "self"]
        key = t.get("local_key")
        if self_args and key and key in self.F.bodies:
            cb = self.F.bodies[key]
            i = self_args[0]
            vk = self._view_kind(body, t, n)
            out = set()
            for s in cur:
                s1 = s
                # R1: access after release
                if s.ref in ("rel", "notlast", "freed") and not vk and n != "repr::heap_buffer::HeapBuffer::reference_count":
                    self.ob("R1", body, site, line, False,
                            detail="%s called on the handle in state ref=%s: the buffer may already be freed or reallocated by another owner" % (n, s.ref))
                    out.add(s)
                    continue
                elif not vk and n != "repr::heap_buffer::HeapBuffer::reference_count":
                    self.ob("R1", body, site, line, True, how="handle owns its reference")
                # contract obligations
                if n in CONTRACTS or vk:
                    obn, pred = CONTRACTS[n] if n in CONTRACTS else ("kind=" + {"H": "Heap", "S": "Static", "I": "Inline"}[vk], (lambda t, _k=vk: t.kind == _k))
                    good = pred(s)
                    self.ob("R-contract." + obn, body, site, line, good, how="state kind=%s uniq=%s" % (s.kind, s.uniq),
                            detail="%s requires %s; reachable state kind=%s uniq=%s ref=%s" % (n, obn, s.kind, s.uniq, s.ref))
                    if not good:
                        # repair to avoid cascades
                        if obn.startswith("kind="):
                            continue
                        if obn in ("Modifiable", "Modifiable-or-unique", "Unique"):
                            if s.kind == "S":
                                continue
                            s1 = s._replace(uniq=True, ref="own")
                        if "released-last" in obn:
                            s1 = s._replace(ref="last", acq=True)
                if n == "repr::heap_buffer::HeapBuffer::set_len":
                    lh = dict(s.facts).get("lenheap")
                    good = s.kind == "H" and s.ref == "own" and (s.uniq or lh is False)
                    self.ob("R-contract.set_len(heap)", body, site, line, good, how="unique, or length word is handle-local",
                            detail="HeapBuffer::set_len in state uniq=%s len-on-heap=%s ref=%s" % (s.uniq, lh, s.ref))
                    if not good:
                        s1 = s._replace(uniq=True, ref="own")
                if vk:
                    out.add(s1)
                    continue
                if n == "repr::Repr::make_shallow_clone::ref_count_overflow":
                    # table: consumes the increment its caller just made (ptr::read + release)
                    pass
                # by-value handles passed alongside (replace_inner(self, other)): classify them here
                pcl = []
                for j, a in enumerate(args):
                    if j != i and j < len(t.get("arg_tys", [])) and t["arg_tys"][j] in ("repr::Repr", "repr::heap_buffer::HeapBuffer"):
                        kinds, vp, desc = self.classify_new_value(body, tracked, a)
                        pcl.append((j + 1, tuple(kinds), vp, desc))
                self.ctx_stack.append(body.path)
                self.pclass_stack.append(tuple(pcl))
                try:
                    res = self.summary(cb, ("param", i + 1), s1)
                finally:
                    self.ctx_stack.pop()
                    self.pclass_stack.pop()
                for cls, s2 in res:
                    s3 = s1._replace(kind=s2.kind, uniq=s2.uniq, ref=s2.ref, acq=s2.acq, inc=s2.inc,
                                     asg=s1.asg or s2.asg, dirty=s1.dirty or s2.dirty)
                    # lenheap fact survives only if the callee did not reassign
                    if s2.asg:
                        s3 = s3._replace(facts=frozenset(f for f in s3.facts if f[0] != "lenheap"))
                    if isinstance(cls, str) and cls.startswith("unwind"):
                        unwind_exit({self._setfact(s3, "allocpanic", True) if cls == "unwind:alloc" else s3}, "callee unwinds")
                        continue
                    if cls in ("Ok", "Err", "Some", "None", True, False) or (isinstance(cls, tuple) and cls and cls[0] == "enum"):
                        s3 = self._setfact(s3, bb, cls)
                    else:
                        s3 = s3._replace(facts=frozenset(f for f in s3.facts if f[0] != bb))
                    out.add(s3)
            finish(out)
            return

        # ---- helpers over raw parts: a local function that receives the handle's buffer pointer
        # (dealloc_raw(ptr, ..), allocation_start(ptr, ..)) runs in the same ownership state
        ptr_args = [i for i, c in enumerate(can) if c == "bufptr"]
        if not self_args and ptr_args and key and key in self.F.bodies and self.F.bodies[key].j["kind"] != "closure":
            cb = self.F.bodies[key]
            i = ptr_args[0]
            out = set()
            for s in cur:
                self.ctx_stack.append(body.path)
                self.pclass_stack.append(())
                try:
                    res = self.summary(cb, ("ptrparam", i + 1), s)
                finally:
                    self.ctx_stack.pop()
                    self.pclass_stack.pop()
                for cls, s2 in res:
                    s3 = s._replace(ref=s2.ref, acq=s2.acq, inc=s2.inc, dirty=s.dirty or s2.dirty)
                    if isinstance(cls, str) and cls.startswith("unwind"):
                        unwind_exit({s3}, "callee unwinds")
                        continue
                    out.add(s3._replace(facts=frozenset(f for f in s3.facts if f[0] != bb)))
            finish(out)
            return

        if self_args and not key and n.startswith("core::panicking::"):
            # assert_eq!(.., self as *const _): the panic machinery only formats what it is given
            if "nounwind" not in n:
                unwind_exit(cur, n)
            finish(cur)
            return
        if self_args and not key:
            # tracked object handed to a non-local function
            self._foreign(body, tracked, bb, t, n, args, can, cur, finish)
            return

        # ---- replace-by-value into self handled above (local). Other calls: no effect on the
        # tracked object; user-code edges and explicit panics are exits.
        if self._is_exit_edge(t, n):
            if self._is_alloc_panic(n) and args:
                # the panic taken when an allocation was refused: only tuples whose Result is not known
                # to be Ok take it; they are marked so that the API-level exit can be judged (C05)
                a0 = strip_refs(args[0])
                src = a0[1] if a0[0] == "call" else None
                up = self.unwrap_payload(body, a0) if a0[0] == "field" else None
                if up is not None:
                    src = up[0]    # panic_with_msg(e) on the Err arm of a written-out match
                st = set()
                for s in cur:
                    cls = dict((a, b) for (a, b) in s.facts if isinstance(a, int)).get(src)
                    if isinstance(cls, str) and cls.split(":")[0] == "Ok":
                        continue
                    st.add(self._setfact(s, "allocpanic", True))
                unwind_exit(st, n)
            else:
                unwind_exit(cur, n)
        if n == "core::iter::traits::iterator::Iterator::next" and not t.get("resolved"):
            # iterator-driven operations may stop between items: what was appended for earlier items
            # stays; failure atomicity is judged per item
            cur = {s._replace(dirty=False) for s in cur}
        # result class facts for Result/Option-returning calls that do not touch self: none
        out = set()
        for s in cur:
            if any(f[0] == bb for f in s.facts):
                s = s._replace(facts=frozenset(f for f in s.facts if f[0] != bb))
            out.add(s)
        finish(out)

    def _view_kind(self, body, t, n):
        """a storage view of the handle: `as_heap_buffer(&self) -> &HeapBuffer` and friends, or any
        local function from &Repr to a reference to one of the three buffer types (a generic
        `view::<B>()`): which kind of storage it asserts -> 'H' | 'S' | 'I' | None"""
        if n in VIEW_FNS:
            return VIEW_FNS[n]
        if t.get("local_key") and t.get("arg_tys") and not t["dest"]["p"] and len(t["arg_tys"]) == 1:
            d = body.local_ty(t["dest"]["l"]).strip()
            if base_type(t["arg_tys"][0]) == "repr::Repr" and d.startswith("&"):
                return {"repr::heap_buffer::HeapBuffer": "H", "repr::static_buffer::StaticBuffer": "S", "repr::inline_buffer::InlineBuffer": "I"}.get(base_type(d))
        return None

    def _uw(self):
        if not hasattr(self, "_uwname"):
            import r_api
            self._uwname = r_api.find_unwrap_helper(self.F)
        return self._uwname

    def _is_alloc_panic(self, n):
        return n.endswith("::unwrap_with_msg") or (n is not None and n in self._uw())

    def _unwind_cls(self, s):
        return "unwind:alloc" if ("allocpanic", True) in s.facts else "unwind"

    def _is_exit_edge(self, t, n):
        if not t.get("resolved"):
            return True
        if n == self._uw()[0] or n == self._uw()[1]:
            return True
        if n.startswith("core::panicking::") and "nounwind" not in n:
            return True
        if n.endswith("::unwrap_with_msg") or n.endswith("do_panic_with_msg"):
            return True
        if t.get("cb_impls"):
            return True
        if t.get("cb_closures"):
            # a std combinator given a local closure (`unwrap_or_else(|_| unreachable())`): an exit
            # only if the closure itself can unwind outside debug-only regions
            return any(self._may_unwind(c) for c in t["cb_closures"])
        return False

    def _may_unwind(self, key, depth=0):
        b = self.F.bodies.get(key)
        if b is None or depth > 3:
            return True
        dbg = b.debug_only_blocks()
        for bb, ct in b.calls():
            if bb in dbg:
                continue
            cn = callee_name(ct)
            if not ct.get("resolved"):
                return True
            if cn.startswith("core::panicking::") and "nounwind" not in cn:
                return True
            k = ct.get("local_key")
            if k and self._may_unwind(k, depth + 1):
                return True
        for bb in range(b.n):
            if b.term(bb)["k"] == "assert" and bb not in dbg and b.term(bb)["msg_kind"] in ("bounds",):
                return True
        return False

    FOREIGN_OK = {
        # callee -> reason it cannot affect the ownership state of the handle it is given
        "core::ptr::read": "handled as DUP",
        "core::ptr::from_ref": "pointer to the handle itself", "core::ptr::from_mut": "pointer to the handle itself",
        "core::ptr::const_ptr::<impl *const T>::": "pointer arithmetic / cast on the handle's own address (reads the two handle words, not the buffer)",
        "core::ptr::mut_ptr::<impl *mut T>::": "pointer arithmetic / cast on the handle's own address",
        "core::mem::size_of_val": "size query",
        "core::fmt::Write::write_fmt": "calls back into <LeanString as fmt::Write>::write_str (safe API)",
        "core::mem::drop": "by-value drop runs the type's own Drop",
        "core::ops::Deref::deref": "read-only view",
        "core::iter::Extend::extend": "safe API",
    }

    def _foreign(self, body, tracked, bb, t, n, args, can, cur, finish):
        base = n
        for k in self.FOREIGN_OK:
            if base.startswith(k):
                finish(cur)
                return
        # LeanString-level tracked objects handed to generic library code (format machinery,
        # iterator adaptors) can only be used through the safe API; Repr-level ones must not escape.
        ty = base_type(body.local_ty(tracked[1])) if tracked[0] != "upvar" else "LeanString"
        if ty == "LeanString":
            finish(cur)
            return
        self.ob("unclassified", body, "escape:" + self.site_name(body, bb), t.get("line", 0), False,
                detail="raw handle (%s) passed to non-local function %s: ownership effect unknown" % (ty, n))
        finish(cur)


def entry_tuples(kinds=("I", "S", "H")):
    return [T(kind=k, uniq=False, ref="own", acq=False, inc=0, asg=False, dirty=False, ret=None, facts=frozenset()) for k in kinds]
