"""A5: resolved call graph over local bodies, with leaf classification and user-code edges."""
from facts import callee_name

ALLOC_SITES = ("alloc::alloc::alloc", "alloc::alloc::realloc", "alloc::alloc::alloc_zeroed")
RELEASE_SITES = ("alloc::alloc::dealloc",)

# B6: alloc/std leaves that only borrow (never allocate) — one symbol per line with the reason
BORROW_ONLY_LEAVES = {
    "alloc::string::String::as_str": "borrows the String's buffer",
    "<alloc::string::String as core::ops::Deref>::deref": "borrows the String's buffer",
    "<alloc::borrow::Cow<'_, B> as core::ops::Deref>::deref": "borrows",
    "<alloc::borrow::Cow<'_, T> as core::convert::AsRef<T>>::as_ref": "borrows",
    "<alloc::boxed::Box<T, A> as core::ops::Deref>::deref": "borrows",
    "<alloc::string::String as core::convert::AsRef<str>>::as_ref": "borrows",
    "std::ffi::OsStr::new": "reinterprets a &str as &OsStr",
    "std::ffi::os_str::OsStr::new": "reinterprets a &str as &OsStr",
    "std::path::Path::new": "reinterprets a &str as &Path",
}


class Edge:
    __slots__ = ("src", "bb", "kind", "target", "name", "crate", "line")

    def __init__(self, src, bb, kind, target, name, crate, line):
        self.src, self.bb, self.kind, self.target, self.name, self.crate, self.line = src, bb, kind, target, name, crate, line

    def __repr__(self):
        return "%s@bb%d -%s-> %s" % (self.src, self.bb, self.kind, self.target or self.name)


class CallGraph:
    def __init__(self, F):
        self.F = F
        self.out = {}
        self.local_trait_impl_methods = {}
        for i in F.impls:
            if i["trait_crate"] == "lean_string":
                for nm, key in i["items"].items():
                    self.local_trait_impl_methods.setdefault((i["trait"], nm), []).append(key)
        for path, body in F.bodies.items():
            self.out[path] = self._edges(body)

    def _edges(self, body):
        es = []
        for bb, blk in enumerate(body.blocks):
            t = blk["term"]
            line = t.get("line", 0)
            if t["k"] == "call":
                name = callee_name(t)
                if t.get("local_key"):
                    es.append(Edge(body.path, bb, "local", t["local_key"], name, "lean_string", line))
                elif t.get("resolved"):
                    es.append(Edge(body.path, bb, "leaf", None, name, t.get("inst_crate"), line))
                else:
                    tr = t.get("trait")
                    if t.get("callee") is None:
                        es.append(Edge(body.path, bb, "user", None, "<indirect call>", None, line))
                    elif t.get("trait_crate") == "lean_string":
                        meth = t["callee"].rsplit("::", 1)[1]
                        tgts = self.local_trait_impl_methods.get((tr, meth), [])
                        for k in tgts:
                            es.append(Edge(body.path, bb, "localtrait", k, t["callee"], "lean_string", line))
                        if not tgts:
                            es.append(Edge(body.path, bb, "user", None, t["callee"], None, line))
                    elif t.get("callee_crate") == "lean_string" and not tr:
                        # unresolved call to a local generic fn cannot happen (fns resolve), keep safe
                        es.append(Edge(body.path, bb, "user", None, t["callee"], None, line))
                    else:
                        es.append(Edge(body.path, bb, "user", None, t["callee"], t.get("callee_crate"), line))
                for m in t.get("mono_calls", []):
                    if m.get("local_key"):
                        es.append(Edge(body.path, bb, "mono", m["local_key"], m["inst_def"], "lean_string", line))
                    else:
                        es.append(Edge(body.path, bb, "mono-leaf", None, m["inst_def"], m.get("inst_crate"), line))
                if name == "core::iter::traits::iterator::Iterator::collect" and t.get("generic_args"):
                    # collect::<B>() calls <B as FromIterator<_>>::from_iter: link to every local impl for B
                    tgt_ty = t["generic_args"][-1]
                    for i in self.F.impls:
                        if i["trait"] == "core::iter::traits::collect::FromIterator" and i["self"] == tgt_ty and "from_iter" in i["items"]:
                            es.append(Edge(body.path, bb, "cb", i["items"]["from_iter"], i["items"]["from_iter"], "lean_string", line))
                if name == "core::mem::drop" and t.get("cb_local_adts"):
                    # drop(guard) runs the guard type's local Drop impl
                    for i in self.F.impls:
                        if i["trait"] == "core::ops::drop::Drop" and i["self"].split("<")[0] in t["cb_local_adts"] and "drop" in i["items"]:
                            es.append(Edge(body.path, bb, "drop", i["items"]["drop"], i["items"]["drop"], "lean_string", line))
                for c in t.get("cb_closures", []):
                    es.append(Edge(body.path, bb, "cb", c, c, "lean_string", line))
                for c in t.get("cb_impls", []):
                    if c.get("local_key"):
                        es.append(Edge(body.path, bb, "cb", c["local_key"], c["inst_def"], "lean_string", line))
                # closures passed as arguments to local generic fns are called by them
                for a in t["args"]:
                    if "c" in a and "closure" in a["c"]:
                        es.append(Edge(body.path, bb, "cb", a["c"]["closure"], a["c"]["closure"], "lean_string", line))
            elif t["k"] == "drop":
                for k in t.get("local_drops", []):
                    es.append(Edge(body.path, bb, "drop", k, k, "lean_string", line))
                if t.get("generic_ty"):
                    es.append(Edge(body.path, bb, "user-drop", None, "drop of " + t["ty"], None, line))
        # closure aggregates constructed here are (conservatively) callable from here
        for bb, blk in enumerate(body.blocks):
            for s in blk["stmts"]:
                if s["k"] == "assign" and s["rv"]["k"] == "aggregate" and s["rv"].get("agg") == "closure":
                    es.append(Edge(body.path, bb, "cb", s["rv"]["closure"], s["rv"]["closure"], "lean_string", s.get("line", 0)))
        return es

    def reach(self, roots, follow=lambda e: True):
        """-> (set of local bodies reached, list of leaf edges, list of user edges, parent map)"""
        seen = set()
        parent = {}
        leaves, users = [], []
        st = list(roots)
        for r in roots:
            seen.add(r)
        while st:
            p = st.pop()
            for e in self.out.get(p, []):
                if not follow(e):
                    continue
                if e.kind in ("leaf", "mono-leaf"):
                    leaves.append(e)
                elif e.kind in ("user", "user-drop"):
                    users.append(e)
                elif e.target and e.target not in seen:
                    if e.target in self.out:
                        seen.add(e.target)
                        parent[e.target] = e
                        st.append(e.target)
        return seen, leaves, users, parent

    def path_to(self, parent, target):
        chain = []
        cur = target
        while cur in parent:
            e = parent[cur]
            chain.append("%s:%d" % (e.src, e.line))
            cur = e.src
        return " <- ".join(chain)

    def alloc_leaves(self, leaves):
        return [e for e in leaves if e.name in ALLOC_SITES]

    def may_allocate(self, root):
        """context-free: does `root` (a local body key) reach an allocation site, or an
        alloc/std leaf that is not known to be borrow-only?"""
        if not hasattr(self, "_ma"):
            self._ma = {}
        if root in self._ma:
            return self._ma[root]
        seen, leaves, users, parent = self.reach([root])
        bad = []
        for e in leaves:
            if e.name in ALLOC_SITES:
                bad.append(e)
            elif e.crate in ("alloc", "std") and e.name not in RELEASE_SITES and e.name not in BORROW_ONLY_LEAVES:
                bad.append(e)
        self._ma[root] = bad
        return bad
