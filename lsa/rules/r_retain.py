"""U2: a user-code edge taken while a mutable view of the string is live must publish a valid
length on its unwind path (guard object whose Drop always calls set_len)."""
import re
from facts import callee_name, strip_refs
from guards import describe, anchors
import r_own

VIEW = ("repr::Repr::as_str_mut", "repr::Repr::as_slice_mut")


def const_flag_values(body, local):
    """forward dataflow for a bool local that is only ever assigned constants (a drop flag):
    -> {bb: set of possible values at block entry}"""
    instate = {0: frozenset()}
    work = [0]
    outstate = {}
    while work:
        bb = work.pop()
        cur = set(instate[bb])
        for s in body.blocks[bb]["stmts"]:
            if s["k"] == "assign" and s["lhs"]["l"] == local and not s["lhs"]["p"]:
                rv = s["rv"]
                if rv["k"] == "use" and "c" in rv["a"] and "scalar" in rv["a"]["c"]:
                    cur = {bool(rv["a"]["c"]["scalar"])}
                else:
                    cur = {True, False}
        outstate[bb] = frozenset(cur)
        for s, _ in body.succ(bb):
            old = instate.get(s)
            new = frozenset(cur) if old is None else old | frozenset(cur)
            if old is None or new != old:
                instate[s] = new
                if s not in work:
                    work.append(s)
    return instate, outstate


def unwind_drops(body, call_bb):
    """Drop terminators certainly executed on the unwind path of the call at call_bb, following
    drop-flag switches with the flag values possible at the call"""
    t = body.term(call_bb)
    if not isinstance(t["unwind"], int):
        return []
    drops = []
    cur = t["unwind"]
    seen = set()
    while cur is not None and cur not in seen:
        seen.add(cur)
        tt = body.term(cur)
        if tt["k"] == "drop":
            drops.append((cur, tt))
            cur = tt["target"]
        elif tt["k"] == "goto":
            cur = tt["target"]
        elif tt["k"] == "switch":
            d = tt["discr"]
            pl = d.get("cp") or d.get("mv")
            nxt = None
            if pl and not pl["p"]:
                _, outs = const_flag_values(body, pl["l"])
                vals = outs.get(call_bb, frozenset())
                if len(vals) == 1:
                    v = 1 if list(vals)[0] else 0
                    nxt = tt["otherwise"]
                    for av, ab in tt["arms"]:
                        if av == v:
                            nxt = ab
            cur = nxt
        else:
            cur = None
    return drops


def must_pass(body, pred_blocks):
    """every path entry -> return passes one of pred_blocks"""
    reach = body.reachable(0, unwind=False, stop=lambda b: b in pred_blocks)
    return not any(body.term(b)["k"] == "return" and b not in pred_blocks for b in reach)


def _never_overtakes(body, gl, A, B):
    """fields A and B of the guard local gl: initialised to the same constant, A advanced only by
    `+= w`, and every path from an advance of A reaches an advance of B by the same w before it
    reaches another advance of A or a return"""
    from guards import reach_cut
    init = [x for (bb, si, x) in body.defs.get(gl, []) if si != "term" and x["k"] == "aggregate"]
    if len(init) != 1 or max(A, B) >= len(init[0]["fields"]):
        return False
    fa, fb = init[0]["fields"][A], init[0]["fields"][B]
    if not ("c" in fa and "c" in fb and fa["c"].get("scalar") is not None and fa["c"].get("scalar") == fb["c"].get("scalar")):
        return False

    def incs(f):
        out = []
        for (pb, si, pp) in body.partial.get(gl, []):
            if pp and isinstance(pp[0], dict) and pp[0].get("f") == f and len(pp) == 1 and si != "term":
                e = strip_refs(body.origin_rvalue(body.blocks[pb]["stmts"][si]["rv"]))
                if e[0] == "field" and e[1][0] == "bin" and e[1][1] == "AddWithOverflow" and e[2] == 0:
                    e = ("bin", "Add", e[1][2], e[1][3])
                if e[0] == "bin" and e[1] in ("Add", "AddUnchecked"):
                    out.append((pb, describe(body, e[3])))
                else:
                    out.append((pb, None))
        return out
    ia, ib = incs(A), incs(B)
    if not ia or not ib or any(w is None for _, w in ia + ib) or len({w for _, w in ia + ib}) != 1:
        return False
    bblocks = {pb for pb, _ in ib}
    ablocks = {pb for pb, _ in ia}
    for pa in ablocks:
        if pa in bblocks:
            continue
        seen = set()
        for y, lab in body.succ(pa, unwind=False):
            seen |= reach_cut(body, y, lambda q: q in bblocks)
        for q in seen:
            if q in bblocks:
                continue
            if body.term(q)["k"] == "return" or q in ablocks:
                return False
    return True


def rule_U2(ctx, rule="U2"):
    F = ctx.F
    n = 0
    for path, body in F.bodies.items():
        views = [bb for bb, t in body.calls() if callee_name(t) in VIEW]
        if not views:
            continue
        for bb in range(body.n):
            if r_own.user_edge_kind(ctx, body, bb) != "user" or body.term(bb)["k"] != "call":
                continue
            # is the edge inside a window where a mutable view is live? (reachable from a view call)
            if not any(bb in body.reachable(v, unwind=False) for v in views):
                continue
            n += 1
            t = body.term(bb)
            site = "user-edge:" + r_own._edge_name(body, bb)
            drops = unwind_drops(body, bb)
            guards = [(db, dt) for db, dt in drops if dt.get("local_drops")]
            ctx.ob(rule, path, site + ">guard-on-unwind", bool(guards), line=t.get("line", 0), how="unwind path drops a guard (%s)" % ", ".join(d for _, dt in guards for d in dt["local_drops"]),
                   detail="user code runs while a mutable view of the string is live and no guard object is dropped on the unwind path: a panic leaves the length unpublished")
            for db, dt in guards:
                for dk in dt["local_drops"]:
                    dbody = F.bodies.get(dk)
                    if dbody is None:
                        ctx.ob(rule, path, site + ">drop-body", False, detail="Drop impl %s not found" % dk)
                        continue
                    sl = [cb for cb, ct in dbody.calls() if callee_name(ct) == "repr::Repr::set_len"]
                    ctx.ob(rule, dk, "must-set_len", bool(sl) and must_pass(dbody, set(sl)), how="every path through the guard's drop calls Repr::set_len",
                           detail="a path through the unwind guard's Drop returns without calling set_len: after a panic in user code the string keeps its old length (unprocessed tail stays visible)")
                    for cb in sl:
                        ct = dbody.term(cb)
                        recv = describe(dbody, dbody.origin_operand(ct["args"][0]))
                        ln = describe(dbody, dbody.origin_operand(ct["args"][1]))
                        # the length is a field of the guard; which one?
                        mm = re.match(r"^core::cmp::(?:Ord::)?min\(p1\.(\d+), p1\.(\d+)\)$", ln)
                        if mm:
                            # a clamp by the other cursor: the identity when the published cursor never
                            # overtakes it - both start equal, and whenever the published one advances
                            # the other advances by the same amount before the next round / the exit
                            gl0 = dt["pl"]["l"]
                            for A, B in ((int(mm.group(1)), int(mm.group(2))), (int(mm.group(2)), int(mm.group(1)))):
                                if _never_overtakes(body, gl0, A, B):
                                    ln = "p1.%d" % A
                                    break
                        ctx.ob(rule, dk, "set_len-args", recv.startswith("p1.") and re.match(r"^p1\.\d+$", ln) is not None, how="set_len(%s, %s)" % (recv, ln), detail="guard publishes set_len(%s, %s)" % (recv, ln))
                        # in the enclosing fn: that field is only advanced after the bytes were written
                        try:
                            fidx = int(ln.rsplit(".", 1)[1])
                        except ValueError:
                            continue
                        gl = dt["pl"]["l"]
                        writes = [wb for wb, wt in body.calls() if callee_name(wt) in ("core::char::methods::<impl char>::encode_utf8", "core::ptr::copy", "core::ptr::copy_nonoverlapping", "core::slice::<impl [T]>::copy_from_slice")]
                        for (pb, si, pp) in body.partial.get(gl, []):
                            if pp and isinstance(pp[0], dict) and pp[0].get("f") == fidx:
                                ok = any(body.dominates(wb, pb) for wb in writes)
                                ctx.ob(rule, path, "advance-after-write:field%d" % fidx, ok, how="published length advanced only after the bytes were written",
                                       detail="the length the guard publishes is advanced before the corresponding bytes are written")
    ctx.need(rule, "crate", "guarded-user-edges", n >= 1, "no user-code edge inside a mutable-view window found (retain changed shape?)", how="%d user-code edge(s) inside a mutable-view window" % n)


def _operator_appends(F):
    """`impl AddAssign<X> for LeanString` whose whole effect is an append of the right-hand side to
    `self` (`*self += piece` is then `self.push_str(piece)`)"""
    out = set()
    base = ("LeanString::push", "LeanString::push_str", "LeanString::try_push_str", "LeanString::try_push")
    for _ in range(3):      # `+= &LeanString` may go through `+= &str`
        for i in F.impls:
            if i["self"] == "LeanString" and i["trait"] == "core::ops::arith::AddAssign":
                b = F.bodies.get(i["items"].get("add_assign"))
                if b is None or b.path in out:
                    continue
                apps = [t for _, t in b.calls() if callee_name(t) in base or callee_name(t) in out]
                if len(apps) == 1 and describe(b, b.origin_operand(apps[0]["args"][0])) == "p1" and "p2" in describe(b, b.origin_operand(apps[0]["args"][1])):
                    out.add(b.path)
    return tuple(sorted(out))


def rule_extend_inplace(ctx, rule="C18-inplace"):
    """Extend impls append every item to the target itself, as it arrives: after a panic of the
    iterator the target holds its old text plus the items yielded so far (what String holds).
    Structural form: every append reachable from `extend` (through closures and private helpers) has
    the `&mut self` parameter as its receiver, and the target is never assigned as a whole."""
    from guards import inlined_sites
    F = ctx.F
    APPENDS = _operator_appends(ctx.F) + ("LeanString::push", "LeanString::push_str", "LeanString::try_push", "LeanString::try_push_str", "<LeanString as core::fmt::Write>::write_str",
               "<LeanString as core::fmt::Write>::write_char", "repr::Repr::push_str", "LeanString::insert", "LeanString::insert_str")
    n = 0
    for i in F.impls:
        if i["trait"] != "core::iter::traits::collect::Extend" or i["self"] != "LeanString":
            continue
        key = i["items"].get("extend")
        b = F.bodies.get(key)
        if b is None:
            continue
        n += 1
        is_app = lambda nm: nm in APPENDS or (nm.endswith("::extend") and "Extend<" in nm and nm.startswith("<LeanString as")) or nm == "core::iter::traits::collect::Extend::extend"
        sites = inlined_sites(b, is_app)
        recv = [st.desc(0) for st in sites]
        ok = bool(sites) and all(r in ("p1", "p1.0") for r in recv)
        ctx.ob(rule, key, "appends-to-self", ok, how="%d append site(s), all on the &mut self parameter" % len(sites),
               detail="extend appends to %s: items are gathered somewhere else than in the target, so a panicking iterator leaves the target without the items already yielded (String keeps them)" % (sorted(set(recv)) or "nothing"))
        whole = [s.get("line", 0) for blk in b.blocks for s in blk["stmts"] if s["k"] == "assign" and s["lhs"]["l"] == 1 and s["lhs"]["p"] == ["deref"]]
        taken = [t.get("line", 0) for _, t in b.calls() if callee_name(t) in ("core::mem::take", "core::mem::replace", "core::mem::swap") and any("LeanString" in x for x in t.get("arg_tys", []))]
        ctx.ob(rule, key, "no-whole-assignment", not whole and not taken, how="the target is only appended to", detail="extend replaces the target as a whole (line %s): between taking the old value and storing the result a panic of the iterator loses text" % (whole + taken))
    ctx.need(rule, "crate", "Extend-impls", n >= 5, "only %d Extend impls for LeanString found" % n, how="%d Extend impls" % n)


def rule_items_appended(ctx, rule="C16-items", traits=("core::iter::traits::collect::FromIterator",)):
    """In the collecting impls every element taken from the iterator is appended before the next one
    is requested or the function returns: on each path from the `Some(x)` edge of a `next()` call to
    `return` / another `next()`, an append of that element lies in between.  (An element parked in a
    local and pushed only inside a closure that runs on one arm of a Result - e.g. only when a
    pre-sizing allocation succeeded - is lost on the other arm.)"""
    from guards import edge_fact, describe, empty_edge
    F = ctx.F
    APP = _operator_appends(ctx.F) + ("LeanString::push", "LeanString::push_str", "LeanString::try_push", "LeanString::try_push_str", "repr::Repr::push_str")
    n = 0
    for i in F.impls:
        if i["trait"] not in traits or i["self"] != "LeanString":
            continue
        todo = [key for nm, key in i["items"].items()]
        done = set()
        while todo:
            key = todo.pop()
            if key in done:
                continue
            done.add(key)
            b = F.bodies.get(key)
            if b is None:
                continue
            nexts = [bb for bb, t in b.calls() if callee_name(t) == "core::iter::traits::iterator::Iterator::next" or callee_name(t).endswith(" as core::iter::traits::iterator::Iterator>::next")]
            if not nexts:
                # no loop of its own: the elements are handed to a sibling collecting impl
                # (`buf.extend(iter)`), whose loop is the one to look at
                for bb, t in b.calls():
                    k = t.get("local_key")
                    if k and k in F.bodies and (k.startswith("<LeanString as core::iter::traits::collect::Extend<") or k.startswith("<LeanString as core::iter::traits::collect::FromIterator<")):
                        todo.append(k)
                    elif k and k in F.bodies and k not in anchors(F) and F.bodies[k].j["kind"] != "closure":
                        todo.append(k)      # a private helper shared by several impls (`extend_pieces(iter)`)
                continue
            # ... and on every path: no early return before the loop (a refused pre-sizing hint is ignored,
            # it does not end the call with nothing appended)
            ctx.ob(rule, key, "polls-on-every-path", must_pass(b, set(nexts)), line=b.line(nexts[0]), how="every path from the entry passes next()",
                   detail="%s can return without polling the iterator at all: the items are silently not appended on that path" % key)
            # one loop polls the iterator: String's impls stop at the first None; a second loop (after a
            # `by_ref().take(n)` batch, say) polls a non-fused iterator again after it said None
            ctx.ob(rule, key, "one-polling-site", len(nexts) == 1, line=b.line(nexts[0]), how="one next() call site",
                   detail="the iterator is polled at %d sites (lines %s): after one loop has seen None another one asks again" % (len(nexts), [b.line(x) for x in nexts]))
            apps = set()
            for bb, t in b.calls():
                if callee_name(t) in APP and len(t["args"]) >= 2 and "item(" in describe(b, b.origin_operand(t["args"][1])):
                    apps.add(bb)
            for N in nexts:
                some_targets = []
                for sb in range(b.n):
                    t = b.term(sb)
                    if t["k"] != "switch":
                        continue
                    for lab, tgt in [(v, x) for v, x in t["arms"]] + [("otherwise", t["otherwise"])]:
                        f = edge_fact(b, sb, lab)
                        if f and f[0] == "cls" and f[1] == N and f[2] == "Some":
                            some_targets.append(tgt)
                if not some_targets:
                    continue
                n += 1
                bad = None
                for S in some_targets:
                    seen, st = set(), [S]
                    while st and bad is None:
                        x = st.pop()
                        if x in seen or x in apps:
                            continue
                        seen.add(x)
                        tx = b.term(x)
                        if tx["k"] == "return":
                            bad = "return (line %s)" % tx.get("line")
                        elif x in nexts:
                            bad = "the next element is requested (line %s)" % tx.get("line")
                        for s2, lab in b.succ(x, unwind=False):
                            # (an element that is an empty string has nothing to append)
                            if isinstance(lab, tuple) and empty_edge(b, x, lab[1], lambda d: "item(" in d):
                                continue
                            st.append(s2)
                ctx.ob(rule, key, "element-appended:next#%d" % nexts.index(N), bad is None, line=b.line(N), how="every path from Some(x) passes an append of x before the next next() / return",
                       detail="an element taken from the iterator can be dropped without being appended: from the Some edge of next() (line %s), %s is reachable without an append of that element" % (b.line(N), bad))
    ctx.need(rule, "crate", "collecting-loops", n >= 1, "no element loop found in the collecting impls", how="%d element loops" % n)


def rule_no_rollback_guards(ctx, rule="C18-noguard"):
    """Extend / FromIterator keep what was appended when the iterator panics (String does): their
    bodies - and the private helpers they hand the iterator to - build no object with drop glue of the
    crate's own (a guard whose Drop restores a snapshot or truncates undoes the appends)"""
    F = ctx.F
    local_drop = {i["self"].split("<")[0] for i in F.impls if i["trait"] == "core::ops::drop::Drop"}
    n = 0
    for i in F.impls:
        if i["trait"] not in ("core::iter::traits::collect::Extend", "core::iter::traits::collect::FromIterator") or i["self"] != "LeanString":
            continue
        todo, done = [k for k in i["items"].values()], set()
        while todo:
            key = todo.pop()
            if key in done or key not in F.bodies:
                continue
            done.add(key)
            b = F.bodies[key]
            n += 1
            bad = []
            for blk in b.blocks:
                for st in blk["stmts"]:
                    if st["k"] == "assign" and st["rv"]["k"] == "aggregate" and st["rv"].get("agg") == "adt":
                        adt = st["rv"].get("adt") or ""
                        if adt.split("<")[0] in local_drop and adt != "LeanString":
                            bad.append("%s (line %s)" % (adt, st.get("line")))
            ctx.ob(rule, key, "no-guard-object", not bad, how="no value of a local type with a Drop impl is built",
                   detail="%s builds %s, a local type with a Drop impl: on unwind it runs and can take back what the loop appended" % (key, ", ".join(bad[:3])))
            for bb, t in b.calls():
                k = t.get("local_key")
                if k and k in F.bodies and k not in anchors(F):
                    todo.append(k)
    ctx.need(rule, "crate", "collecting-bodies", n >= 4, "only %d collecting bodies" % n, how="%d bodies" % n)
