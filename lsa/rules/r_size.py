"""C06: no size argument can corrupt a string — checked constructors, bounded arithmetic."""
import re
from facts import callee_name, strip_refs
from guards import guards_at, describe, eval_int

CAPN = "repr::heap_buffer::internal::Capacity"
TLN = "repr::heap_buffer::internal::TextLen"
HB = "repr::heap_buffer::HeapBuffer::"


def rule_checked_ctors(ctx, rule="C06-ctor"):
    F = ctx.F
    W = F.ptr_bytes
    want = (1 << (8 * (W - 1))) - 1 - (1 if F.ptr_bits == 32 else 0)
    want_static = (1 << (8 * (W - 1))) - 1
    maxlen = F.const_scalar("repr::heap_buffer::internal::MAX_LEN")
    if maxlen is not None:
        ctx.ob(rule, "repr::heap_buffer::internal::MAX_LEN", "value", maxlen == want, how="MAX_LEN = 2^%d - %d (the length field's %d bytes%s)" % (8 * (W - 1), 1 if F.ptr_bits == 64 else 2, W - 1, "" if F.ptr_bits == 64 else ", minus the on-heap marker"),
               detail="MAX_LEN evaluates to %s, expected %s" % (maxlen, want))
    sml = F.const_scalar("repr::static_buffer::StaticBuffer::MAX_LENGTH")
    if sml is not None:
        ctx.ob(rule, "repr::static_buffer::StaticBuffer::MAX_LENGTH", "value", sml == want_static, how="MAX_LENGTH = 2^%d - 1" % (8 * (W - 1)), detail="StaticBuffer::MAX_LENGTH evaluates to %s" % sml)
    # the bounds are judged by value at the guards below, wherever the constants are declared
    maxlen, sml = want, want_static
    # aggregates of the checked newtypes occur only inside their constructors, behind the bound
    sites = {}
    for path, b in F.bodies.items():
        for bb, blk in enumerate(b.blocks):
            for s in blk["stmts"]:
                if s["k"] == "assign" and s["rv"]["k"] == "aggregate" and s["rv"].get("adt") in (CAPN, TLN, "repr::static_buffer::StaticBuffer"):
                    sites.setdefault(s["rv"]["adt"], []).append((path, bb, s))
    for adt, ctor in ((CAPN, CAPN + "::new"), (TLN, TLN + "::new"), ("repr::static_buffer::StaticBuffer", "repr::static_buffer::StaticBuffer::new")):
        lst = sites.get(adt, [])
        outside = sorted({p for p, _, _ in lst if p != ctor})
        ctx.ob(rule, adt, "built-only-in-new", bool(lst) and not outside, how="%s values are built only in %s" % (adt.rsplit("::", 1)[1], ctor), detail="%s constructed directly in %s (bypasses the bound check)" % (adt, outside))
        for p, bb, s in lst:
            if p != ctor:
                continue
            b = F.bodies[p]
            gs = guards_at(b, bb)
            bound = maxlen if adt != "repr::static_buffer::StaticBuffer" else sml
            root_ok = lambda g: describe(b, g[1]) in ("p1", "core::str::<impl str>::len(p1)")
            bounded = any(g[0] == "cmp" and g[3] == bound and g[2] is None and root_ok(g) for g in gs)
            if adt == CAPN and F.ptr_bits == 32:
                # 32-bit: every usize is a valid capacity; realloc bounds the allocation size itself
                ctx.ob(rule, p, "bound", True, how="32-bit: capacity unbounded by design, allocation size bounded in realloc/layout", line=s.get("line", 0))
                continue
            if adt == TLN and F.ptr_bits == 32:
                # two aggregates: inline length (bounded) and the ON_THE_HEAP marker
                fld = describe(b, b.origin_operand(s["rv"]["fields"][0]))
                if "ON_THE_HEAP" in fld:
                    ctx.ob(rule, p, "bound:on-heap-marker", True, how="marker value for lengths above MAX_LEN", line=s.get("line", 0))
                    continue
            ctx.ob(rule, p, "bound", bounded, how="aggregate behind `size <= %s`" % bound, line=s.get("line", 0),
                   detail="%s is built without the bound `<= %d` on its argument: later unchecked size arithmetic (realloc's header + capacity) can wrap" % (adt.rsplit("::", 1)[1], bound))
    # 64-bit: with capacity <= MAX_LEN the unchecked sum header + capacity cannot wrap nor exceed isize::MAX
    if F.ptr_bits == 64 and maxlen is not None:
        hdr = F.layouts.get("repr::heap_buffer::Header", {}).get("size", 16)
        ok = hdr + maxlen + 8 <= (1 << 63) - 1 - 7
        ctx.ob(rule, HB + "realloc", "no-wrap-by-constants", ok, how="size_of::<Header>() + MAX_LEN (+ usize) <= isize::MAX - (align - 1) by evaluated constants", detail="header + MAX_LEN can exceed isize::MAX")
    if F.ptr_bits == 32:
        b = F.bodies.get(HB + "realloc")
        if b:
            for bb, t in b.calls():
                if callee_name(t) == "alloc::alloc::realloc":
                    gs = guards_at(b, bb)
                    lim = F.const_scalar(HB + "realloc::ALLOC_LIMIT")
                    ok = any(g[0] == "cmp" and g[3] is not None and g[2] is None and (lim is None or g[3] == lim) for g in gs)
                    ctx.ob(rule, b.path, "alloc-limit", ok, how="realloc behind alloc_size <= ALLOC_LIMIT", detail="32-bit realloc is not guarded by the allocation-size limit")


TAINT_PARAM_NAMES = ("capacity", "additional", "min_capacity")
BOUNDERS = ("core::num::<impl usize>::checked_add", "core::num::<impl usize>::checked_mul", "core::num::<impl usize>::checked_sub",
            CAPN + "::new", TLN + "::new", "core::cmp::Ord::min", "core::cmp::min")
SINK_CALLS = ("wrapping_add", "wrapping_mul", "wrapping_sub", "unchecked_add", "unchecked_mul", "unchecked_sub", "wrapping_shl", "unchecked_shl")
SINK_OPS = ("Add", "AddWithOverflow", "AddUnchecked", "Mul", "MulWithOverflow", "MulUnchecked", "Shl", "ShlUnchecked", "Sub", "SubWithOverflow", "SubUnchecked")


def _tainted(body, e, tparams, depth=0):
    """does e depend on a tainted parameter without passing a bounding node?"""
    e = strip_refs(e)
    if depth > 16:
        return False
    k = e[0]
    if k == "param":
        return e[1] in tparams
    if k == "call":
        t = body.term(e[1])
        n = callee_name(t)
        if n in BOUNDERS:
            return False
        if t.get("local_key"):
            # results of local calls: size-carrying helpers propagate (amortized_growth, max)
            if n in ("repr::heap_buffer::amortized_growth",):
                return any(_tainted(body, body.origin_operand(a), tparams, depth + 1) for a in t["args"])
            return False
        if n.startswith("core::num::") or n.startswith("core::cmp::Ord::max") or n.startswith("core::cmp::max"):
            return any(_tainted(body, body.origin_operand(a), tparams, depth + 1) for a in t["args"])
        if n.endswith("::size_hint"):
            return True
        return False
    if k in ("bin",):
        return _tainted(body, e[2], tparams, depth + 1) or _tainted(body, e[3], tparams, depth + 1)
    if k in ("un", "cast"):
        return _tainted(body, e[2], tparams, depth + 1)
    if k in ("field", "downcast", "deref"):
        return _tainted(body, e[1], tparams, depth + 1)
    if k == "phi":
        return any(_tainted(body, x, tparams, depth + 1) for x in e[1])
    if k == "mem":
        for d in body.defs.get(e[1], []):
            x = ("call", d[0]) if d[1] == "term" else body.origin_rvalue(d[2])
            if x != e and _tainted(body, x, tparams, depth + 1):
                return True
    return False


SIZE_API = ("with_capacity", "try_with_capacity", "reserve", "try_reserve", "shrink_to", "try_shrink_to")


def rule_size_taint(ctx, rule="C06-taint"):
    F = ctx.F
    # seeds: usize params of the public API named capacity/additional/min_capacity
    tainted = {}  # fn -> set(param idx)
    for path, b in F.bodies.items():
        fn = F.fns.get(path)
        if not fn or not fn.get("exported"):
            continue
        for i in range(1, b.arg_count + 1):
            # the public size arguments: by the API function they belong to (public names are part of
            # the interface), or by their conventional parameter name
            if b.local_ty(i) == "usize" and (path.rsplit("::", 1)[-1] in SIZE_API or b.local_name(i) in TAINT_PARAM_NAMES):
                tainted.setdefault(path, set()).add(i)
    seeds = sum(len(v) for v in tainted.values())
    ctx.need(rule, "crate", "seed-params", seeds >= 6, "only %d public size parameters found (capacity/additional/min_capacity)" % seeds, how="%d public size parameters" % seeds)
    # size_hint results taint the body that reads them
    hint_bodies = [p for p, b in F.bodies.items() if any(callee_name(t).endswith("::size_hint") for _, t in b.calls())]
    ctx.need(rule, "crate", "size_hint-readers", len(hint_bodies) >= 1, "no size_hint reader found", how="%d bodies read a size_hint" % len(hint_bodies))
    for p in hint_bodies:
        tainted.setdefault(p, set())
    # propagate through local calls (context-insensitive)
    changed = True
    rounds = 0
    while changed and rounds < 20:
        changed = False
        rounds += 1
        for path in list(tainted):
            b = F.bodies[path]
            for bb, t in b.calls():
                k = t.get("local_key")
                if not k or k not in F.bodies:
                    continue
                for ai, a in enumerate(t["args"]):
                    if t["arg_tys"][ai] != "usize":
                        continue
                    if _tainted(b, b.origin_operand(a), tainted[path]):
                        s = tainted.setdefault(k, set())
                        if ai + 1 not in s:
                            s.add(ai + 1)
                            changed = True
    n_checked = 0
    for path, tp in tainted.items():
        b = F.bodies[path]
        bad = []
        for bb, blk in enumerate(b.blocks):
            for s in blk["stmts"]:
                if s["k"] == "assign" and s["rv"]["k"] == "bin" and s["rv"]["op"] in SINK_OPS and s["rv"].get("aty") == "usize":
                    ea, eb = b.origin_operand(s["rv"]["a"]), b.origin_operand(s["rv"]["b"])
                    if _tainted(b, ea, tp) or _tainted(b, eb, tp):
                        # a subtraction guarded by a dominating `a > b` style comparison is fine; keep strict: report
                        bad.append("%s at line %s" % (s["rv"]["op"], s.get("line")))
            t = blk["term"]
            if t["k"] == "call":
                n = callee_name(t)
                if n.rsplit("::", 1)[-1] in SINK_CALLS and any(_tainted(b, b.origin_operand(a), tp) for a in t["args"]):
                    bad.append("%s at line %s" % (n, t.get("line")))
        n_checked += 1
        ctx.ob(rule, path, "no-unchecked-arith-on-size", not bad, how="caller-supplied sizes only reach checked_* / saturating_* / bound-checked constructors (params %s)" % sorted(tp),
               detail="unchecked arithmetic on a caller-supplied size: %s" % "; ".join(bad[:3]))
    return n_checked


def rule_layout_checked(ctx, rule="C06-layout"):
    """the allocator is reached only through the checked layout computation"""
    F = ctx.F
    b = F.bodies.get(HB + "layout_from_capacity")
    if not b:
        ctx.need(rule, HB + "layout_from_capacity", "anchor", False, "layout_from_capacity not found")
        return
    # (the sum may be computed by a private helper: `alloc_size_for(capacity)?`)
    from guards import inlined_calls
    names = [callee_name(t) for _, _, t in inlined_calls(b)]
    ok = "core::num::<impl usize>::checked_add" in names and "core::alloc::layout::Layout::from_size_align" in names and not any(n.rsplit("::", 1)[-1] in SINK_CALLS or "unchecked" in n for n in names)
    ctx.ob(rule, b.path, "checked-size", ok, how="size by checked_add, layout by Layout::from_size_align (fallible)", detail="layout_from_capacity uses %s" % sorted(set(names)))
    raw = [s["rv"]["op"] for blk in b.blocks for s in blk["stmts"] if s["k"] == "assign" and s["rv"]["k"] == "bin" and s["rv"]["op"] in SINK_OPS]
    for c in (k for k in F.bodies if k.startswith(b.path + "::{closure")):
        cb = F.bodies[c]
        raw += [s["rv"]["op"] for blk in cb.blocks for s in blk["stmts"] if s["k"] == "assign" and s["rv"]["k"] == "bin" and s["rv"]["op"] in SINK_OPS]
    ctx.ob(rule, b.path, "no-raw-arith", not raw, how="no raw +,*,<< in the layout computation", detail="layout computation uses raw arithmetic %s" % raw)


def rule_room(ctx, rule="C06-room"):
    """a fresh or resized buffer has room for what is copied into it: the capacity operand of
    with_exact_capacity / realloc is bounded below by the length of the text, by construction"""
    from guards import inlined_sites, anchors
    F = ctx.F
    OKCAP = [r"^core::cmp::Ord::max\(repr::heap_buffer::HeapBuffer::len\(.*p1.*\), p2\)$",
             r"^repr::heap_buffer::amortized_growth\(repr::Repr::len\(p1\), p2\)$",
             r"^repr::heap_buffer::amortized_growth\(core::str::<impl str>::len\(p1\), p2\)$"]
    n = 0
    for path, b in F.bodies.items():
        if path.startswith(HB) or path not in anchors(F) or b.j["kind"] == "closure":
            continue
        for st in inlined_sites(b, lambda nm: nm in (HB + "with_exact_capacity", HB + "realloc")):
            n += 1
            cap = st.desc(1)
            ok = any(re.match(p, cap) for p in OKCAP)
            ctx.ob(rule, path, "capacity>=len:" + st.label(), ok, line=st.line, how="capacity operand is max(len, _) or amortized_growth(len, _): at least the text length",
                   detail="%s is given capacity %s, which is not bounded below by the length of the text written into the buffer (smaller request -> heap overflow / capacity < len)" % (st.name, cap))
    ctx.need(rule, "crate", "sites", n >= 3, "only %d exact-capacity / realloc call sites" % n, how="%d sites" % n)
