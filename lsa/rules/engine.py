"""Rule-engine plumbing: per-configuration context, obligation bookkeeping, extraction of
fact files, known-findings / floors handling, evidence + report writing."""
import json, os, subprocess, sys, tempfile, time, shutil, hashlib, re
from collections import OrderedDict
from concurrent.futures import ThreadPoolExecutor

HERE = os.path.dirname(os.path.abspath(__file__))
LSA = os.path.dirname(HERE)
VERIF = os.path.dirname(LSA)
REPO = os.environ.get("LSA_REPO", "/repo")

sys.path.insert(0, HERE)
from facts import Facts  # noqa: E402
import typestate  # noqa: E402
import callgraph  # noqa: E402


class Ob:
    __slots__ = ("rule", "fn", "site", "file", "line", "ok", "bad", "how")

    def __init__(self, rule, fn, site, file, line):
        self.rule, self.fn, self.site, self.file, self.line = rule, fn, site, file, line
        self.ok = 0
        self.bad = []
        self.how = set()

    @property
    def key(self):
        return "%s@%s>%s" % (self.rule, self.fn, self.site)


class Ctx:
    """Everything the rules may look at for one configuration (one fact file)."""

    def __init__(self, F):
        self.F = F
        self.obs = OrderedDict()
        self._cg = None
        self._ts = None
        self.analysed_fns = set()
        self.notes = []

    @property
    def cg(self):
        if self._cg is None:
            self._cg = callgraph.CallGraph(self.F)
        return self._cg

    @property
    def ts(self):
        """the typestate run over all entry points (shared by C01-C05, C10, C11)"""
        if self._ts is None:
            import proto
            self._ts = proto.run(self.F)
        return self._ts

    def ob(self, rule, fn, site, ok, how="", detail="", line=0, file=None):
        key = (rule, fn, site)
        o = self.obs.get(key)
        if o is None:
            b = self.F.bodies.get(fn)
            if file is None:
                file = b.file if b else ""
            if not line and b:
                line = b.j["lines"][0]
            o = Ob(rule, fn, site, file, line)
            self.obs[key] = o
        if ok:
            o.ok += 1
            if how:
                o.how.add(how)
        else:
            if detail not in o.bad:
                o.bad.append(detail)
        self.analysed_fns.add(fn)
        return o

    def need(self, rule, fn, site, cond, detail, how="present"):
        """fail-closed anchor: an expected construct must exist"""
        return self.ob(rule, fn, site, bool(cond), how=how, detail=detail)

    def take_ts(self, prefixes, fn_filter=None):
        """import the typestate obligations whose rule name starts with one of prefixes (and whose
        function satisfies fn_filter, when given)"""
        S, stats = self.ts
        n = 0
        for o in S.obs.values():
            if fn_filter is not None and not fn_filter(o.fn):
                continue
            if any(o.rule == p or o.rule.startswith(p) for p in prefixes):
                key = (o.rule, o.fn, o.site)
                mine = self.obs.get(key)
                if mine is None:
                    mine = Ob(o.rule, o.fn, o.site, o.file, o.line)
                    self.obs[key] = mine
                mine.ok += o.ok
                for d in o.bad:
                    if d not in mine.bad:
                        mine.bad.append(d)
                mine.how |= o.how
                self.analysed_fns.add(o.fn)
                n += 1
        return n


# ----------------------------------------------------------------------------- configurations

QUICK = [
    {"name": "x86_64/std/debug", "args": [], "flags": ""},
    {"name": "x86_64/all-features/debug", "args": ["--all-features"], "flags": ""},
    {"name": "x86_64/nofeat/debug", "args": ["--no-default-features"], "flags": ""},
    # one 32-bit target in the quick tier too: inline capacity 8, length word on the heap above
    # 2^24-2, no upper bound on Capacity - several clauses only bite there
    {"name": "i686/nofeat/debug", "args": ["--no-default-features", "-Zbuild-std=core,alloc", "--target", "i686-unknown-linux-gnu"], "flags": ""},
    # and one big-endian target: the length words are little-endian in memory whatever the target is
    {"name": "powerpc64/nofeat/debug", "args": ["--no-default-features", "-Zbuild-std=core,alloc", "--target", "powerpc64-unknown-linux-gnu"], "flags": ""},
]

THOROUGH = QUICK + [
    {"name": "x86_64/serde/debug", "args": ["--no-default-features", "--features", "serde"], "flags": ""},
    {"name": "x86_64/arbitrary/debug", "args": ["--no-default-features", "--features", "arbitrary"], "flags": ""},
    {"name": "x86_64/std/nodebug", "args": [], "flags": "-Cdebug-assertions=off"},
    {"name": "x86_64/all-features/nodebug", "args": ["--all-features"], "flags": "-Cdebug-assertions=off"},
    {"name": "x86_64/nofeat/nodebug", "args": ["--no-default-features"], "flags": "-Cdebug-assertions=off"},
    {"name": "x86_64/serde/nodebug", "args": ["--no-default-features", "--features", "serde"], "flags": "-Cdebug-assertions=off"},
    {"name": "x86_64/arbitrary/nodebug", "args": ["--no-default-features", "--features", "arbitrary"], "flags": "-Cdebug-assertions=off"},
    {"name": "powerpc/nofeat/debug", "args": ["--no-default-features", "-Zbuild-std=core,alloc", "--target", "powerpc-unknown-linux-gnu"], "flags": ""},
]


def driver_path():
    return os.path.join(LSA, "facts", "target", "debug", "lsa-facts")


def ensure_driver():
    d = driver_path()
    src = os.path.join(LSA, "facts", "src")
    newest = max(os.path.getmtime(os.path.join(src, f)) for f in os.listdir(src))
    if not os.path.exists(d) or os.path.getmtime(d) < newest:
        r = subprocess.run(["cargo", "build", "--offline"], cwd=os.path.join(LSA, "facts"),
                           stdout=subprocess.PIPE, stderr=subprocess.STDOUT, text=True)
        if r.returncode != 0:
            sys.stderr.write(r.stdout)
            raise SystemExit(2)


def extract_one(cfg, outdir):
    out = os.path.join(outdir, cfg["name"].replace("/", "_") + ".json")
    env = dict(os.environ)
    env["LSA_RUSTFLAGS_EXTRA"] = cfg["flags"]
    env["LSA_REPO"] = REPO
    env["CARGO_NET_OFFLINE"] = "true"
    t0 = time.time()
    r = subprocess.run([os.path.join(LSA, "extract.sh"), out] + cfg["args"], env=env,
                       stdout=subprocess.PIPE, stderr=subprocess.PIPE, text=True)
    return cfg, out, r.returncode, r.stderr, time.time() - t0


def extract(configs, outdir, parallel=8):
    ensure_driver()
    res = []
    with ThreadPoolExecutor(max_workers=parallel) as ex:
        for r in ex.map(lambda c: extract_one(c, outdir), configs):
            res.append(r)
    return res


# ----------------------------------------------------------------------------- known findings / floors

def load_known():
    p = os.path.join(VERIF, "known_findings.json")
    if not os.path.exists(p):
        return []
    return json.load(open(p))["findings"]


def load_floors():
    p = os.path.join(VERIF, "lsa", "floors.json")
    if not os.path.exists(p):
        return {}
    return json.load(open(p))


def safe_name(s):
    s = re.sub(r"[^A-Za-z0-9_.-]+", "_", s)
    if len(s) > 120:
        s = s[:100] + "_" + hashlib.sha1(s.encode()).hexdigest()[:10]
    return s


def run_witnesses():
    """E3: build the witness crate's doctests against /repo with the nightly toolchain (error codes
    are checked only there). -> (ok, n_passed, n_failed, log tail)"""
    src = os.path.join(VERIF, "witness")
    tmp = tempfile.mkdtemp(prefix="lsa-witness.")
    try:
        w = os.path.join(tmp, "w")
        shutil.copytree(src, w, ignore=shutil.ignore_patterns("target"))
        # path-depending on /repo: reuse its lockfile so nothing needs resolving online
        cargo_toml = open(os.path.join(w, "Cargo.toml")).read().replace('path = "/repo"', 'path = "%s"' % REPO)
        open(os.path.join(w, "Cargo.toml"), "w").write(cargo_toml)
        if os.path.exists(os.path.join(REPO, "Cargo.lock")):
            shutil.copy(os.path.join(REPO, "Cargo.lock"), os.path.join(w, "Cargo.lock"))
        env = dict(os.environ)
        env["CARGO_NET_OFFLINE"] = "true"
        env["CARGO_TARGET_DIR"] = os.path.join(tmp, "target")
        r = subprocess.run(["cargo", "+nightly", "test", "--doc", "--offline"], cwd=w, env=env, stdout=subprocess.PIPE, stderr=subprocess.STDOUT, text=True)
        out = r.stdout
        m = re.search(r"test result: (\w+)\. (\d+) passed; (\d+) failed", out)
        if not m:
            return False, 0, 0, out[-1500:]
        failed = [l for l in out.splitlines() if l.startswith("test ") and l.rstrip().endswith("FAILED")]
        return (r.returncode == 0 and m.group(1) == "ok"), int(m.group(2)), int(m.group(3)), "\n".join(failed) or out[-600:]
    finally:
        shutil.rmtree(tmp, ignore_errors=True)
