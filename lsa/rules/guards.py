"""A3 edge facts + dominating-guard queries (R-guard)."""
from facts import pointee, strip_refs, callee_name, is_debug_only_switch


def eval_int(e):
    k = e[0]
    if k == "const":
        return e[2] if isinstance(e[2], int) else None
    if k == "cast" and e[1] == "IntToInt":
        return eval_int(e[2])
    if k == "field" and e[1][0] == "bin" and e[1][1].endswith("WithOverflow") and e[2] == 0:
        a, b = eval_int(e[1][2]), eval_int(e[1][3])
        if a is None or b is None:
            return None
        return {"AddWithOverflow": a + b, "SubWithOverflow": a - b, "MulWithOverflow": a * b}[e[1][1]]
    if k == "bin" and e[1] in ("Add", "Sub", "Mul", "BitOr", "BitAnd", "Shl"):
        a, b = eval_int(e[2]), eval_int(e[3])
        if a is None or b is None:
            return None
        return {"Add": a + b, "Sub": a - b, "Mul": a * b, "BitOr": a | b, "BitAnd": a & b, "Shl": a << b}[e[1]]
    return None


def dominating_edges(body, target_bb):
    """Edges (switch_bb, label) such that every path entry -> target_bb uses that edge.
    label = arm value or 'otherwise'.  Debug-only switches are skipped (both arms feasible and a
    debug assertion never counts as a guard)."""
    out = []
    for sb in range(body.n):
        t = body.term(sb)
        if t["k"] != "switch" or is_debug_only_switch(body, sb):
            continue
        if sb in body.debug_only_blocks():
            continue
        arms = [(v, b) for v, b in t["arms"]] + [("otherwise", t["otherwise"])]
        for lab, tgt in arms:
            # remove edge (sb -> tgt with this label) and test reachability of target
            if _reach_without_edge(body, target_bb, sb, lab):
                continue
            out.append((sb, lab))
    return out


def _reach_without_edge(body, target, sb, lab):
    seen = {0}
    st = [0]
    while st:
        b = st.pop()
        if b == target:
            return True
        for s, l in body.succ(b):
            if b == sb and isinstance(l, tuple) and l[0] == "sw" and l[1] == lab:
                continue
            if s not in seen:
                seen.add(s)
                st.append(s)
    return target in seen


def edge_fact(body, sb, lab):
    """Interpret the switch edge as an atomic fact.
    -> ('cmp', root_expr, lo, hi)   integer root constrained to [lo, hi] (None = unbounded)
       ('pred', callee, arg0_expr, bool)
       ('cls', call_bb, 'Ok'|'Err'|'Some'|'None')
       None"""
    t = body.term(sb)
    e = body.origin_operand(t["discr"])
    if e[0] == "ref":
        e = strip_refs(e)
    neg = False
    if t["discr_ty"] == "bool":
        if lab == "otherwise":
            val = not any(v == 1 for v, _ in t["arms"]) if any(v == 1 for v, _ in t["arms"]) else True
            # usual shape: arms [0 -> F], otherwise -> T
            val = True if all(v == 0 for v, _ in t["arms"]) else None
        else:
            val = bool(lab)
        if val is None:
            return None
        return bool_fact(body, e, val)
    if e[0] != "discr" and t["discr_ty"] not in ("bool",) and lab != "otherwise" and isinstance(lab, int):
        # integer switch (`match x { 0 => .., _ => .. }`, `matches!(x, 0)`): this arm means x == lab
        return ("cmp", e, lab, lab)
    if e[0] == "discr":
        inner = strip_refs(e[1])
        if inner[0] == "mem":
            ds = body.defs.get(inner[1], [])
            if len(ds) == 1 and ds[0][1] == "term":
                inner = ("call", ds[0][0])
        if lab == "otherwise":
            vals = [v for v, _ in t["arms"]]
            if len(vals) == 1 and vals[0] in (0, 1):
                lab = 1 - vals[0]
        if inner[0] != "call" and lab != "otherwise":
            # discriminant of a payload / local that is not directly a call result: classify by type
            of = None
            for st in body.blocks[sb]["stmts"]:
                if st["k"] == "assign" and st["rv"]["k"] == "discriminant":
                    of = st["rv"].get("of")
            if of and of.startswith("core::result::Result<"):
                return ("cls", None, "Ok" if lab == 0 else "Err", inner)
            if of and of.startswith("core::option::Option<"):
                return ("cls", None, "Some" if lab == 1 else "None", inner)
        if lab == "otherwise":
            # two-variant enums: `otherwise` next to one explicit arm is the other variant
            # (let-else / if-let lowerings)
            vals = [v for v, _ in t["arms"]]
            if len(vals) == 1 and vals[0] in (0, 1):
                lab = 1 - vals[0]
        if inner[0] == "call" and lab != "otherwise":
            ct = body.term(inner[1])
            n = callee_name(ct)
            dty = body.local_ty(ct["dest"]["l"]) if not ct["dest"]["p"] else ""
            if n.endswith("::branch"):
                a0 = strip_refs(body.origin_operand(ct["args"][0]))
                src = a0[1] if a0[0] == "call" else None
                return ("cls", src, "Ok" if lab == 0 else "Err", a0)
            if dty.startswith("core::option::Option"):
                return ("cls", inner[1], "Some" if lab == 1 else "None", inner)
            if dty.startswith("core::result::Result"):
                return ("cls", inner[1], "Ok" if lab == 0 else "Err", inner)
    return None


def bool_fact(body, e, val, depth=0):
    """the fact expressed by `e == val` for a bool-valued provenance expression e"""
    while e[0] == "un" and e[1] == "Not":
        e = e[2]
        val = not val
    if e[0] == "call":
        ct = body.term(e[1])
        a0 = body.origin_operand(ct["args"][0]) if ct["args"] else None
        # a private predicate that did not exist on the reference tree (`fn is_inline_buffer(&self)
        # -> bool { self.last_byte() < HEAP_MARKER }`): the fact is the one its body expresses, with
        # its operands carried back into this frame
        k = ct.get("local_key")
        F = body.facts
        if k and k in F.bodies and k not in anchors(F) and depth < 3 and F.bodies[k].j["kind"] != "closure":
            hb = F.bodies[k]
            ds = hb.defs.get(0, [])
            if len(ds) == 1:
                r = ("call", ds[0][0]) if ds[0][1] == "term" else hb.origin_rvalue(ds[0][2])
                r = strip_refs(r) if r[0] == "ref" else r
                if r[0] == "param" and 1 <= r[1] <= len(ct["args"]):
                    # `fn unlikely(b: bool) -> bool { .. b }`: the fact is the argument's
                    return bool_fact(body, body.origin_operand(ct["args"][r[1] - 1]), val, depth + 1)
                f = bool_fact(hb, r, val, depth + 1)
                args = tuple(body.origin_operand(a) for a in ct["args"])
                W = lambda x: ("inl", k, x, args, body.path) if x is not None else None
                if f is not None:
                    if f[0] == "cmp":
                        return ("cmp", W(f[1]), f[2], f[3])
                    if f[0] == "cmp2":
                        return ("cmp2", f[1], W(f[2]), W(f[3]))
                    if f[0] == "ne":
                        return ("ne", W(f[1]), f[2])
                    if f[0] == "pred":
                        return ("pred", f[1], W(f[2]), f[3], e[1], tuple(W(x) for x in (f[5] if len(f) > 5 else ())))
        return ("pred", callee_name(ct), a0, val, e[1], tuple(body.origin_operand(a) for a in ct["args"]))
    if e[0] == "bin" and e[1] in ("Eq", "Ne", "Lt", "Le", "Gt", "Ge"):
        op, a, b = e[1], strip_refs(e[2]), strip_refs(e[3])
        ca, cb = eval_int(a), eval_int(b)
        if ca is not None and cb is None:
            op = {"Eq": "Eq", "Ne": "Ne", "Lt": "Gt", "Le": "Ge", "Gt": "Lt", "Ge": "Le"}[op]
            a, b, ca, cb = b, a, cb, ca
        if cb is None:
            return ("cmp2", op if val else {"Eq": "Ne", "Ne": "Eq", "Lt": "Ge", "Le": "Gt", "Gt": "Le", "Ge": "Lt"}[op], a, b)
        if not val:
            op = {"Eq": "Ne", "Ne": "Eq", "Lt": "Ge", "Le": "Gt", "Gt": "Le", "Ge": "Lt"}[op]
        lo, hi = None, None
        if op == "Eq":
            lo = hi = cb
        elif op == "Lt":
            hi = cb - 1
        elif op == "Le":
            hi = cb
        elif op == "Gt":
            lo = cb + 1
        elif op == "Ge":
            lo = cb
        else:
            return ("ne", a, cb)
        return ("cmp", a, lo, hi)
    return None


def guards_at(body, bb, _depth=0):
    """all interpreted facts that hold on every path reaching block bb"""
    out = []
    for sb, lab in dominating_edges(body, bb):
        f = edge_fact(body, sb, lab)
        if f:
            out.append(f)
    # what a private assertion helper established: `self.assert_char_boundary(idx)` returns only when
    # its check passed, so after a call that dominates bb the facts common to all of the helper's
    # returns hold too (carried back into this frame)
    if _depth < 2:
        F = body.facts
        # `let size = self.realloc_size(cap)?;` - on the Ok edge of a private fallible helper the facts
        # hold under which that helper builds its Ok result
        for f0 in list(out):
            if f0[0] == "cls" and f0[2] in ("Ok", "Some") and isinstance(f0[1], int):
                ct = body.term(f0[1])
                k = ct.get("local_key")
                if k and k in F.bodies and k not in anchors(F) and F.bodies[k].j["kind"] != "closure":
                    hb = F.bodies[k]
                    args = tuple(body.origin_operand(a) for a in ct["args"])
                    W = lambda x: ("inl", k, x, args, body.path) if x is not None else None
                    for f in return_facts(hb, _depth + 1, cls=f0[2]):
                        if f[0] == "cmp":
                            out.append(("cmp", W(f[1]), f[2], f[3]))
                        elif f[0] == "cmp2":
                            out.append(("cmp2", f[1], W(f[2]), W(f[3])))
                        elif f[0] == "ne":
                            out.append(("ne", W(f[1]), f[2]))
                        elif f[0] == "pred":
                            out.append(("pred", f[1], W(f[2]), f[3], f0[1], tuple(W(x) for x in (f[5] if len(f) > 5 else ()))))
        for cb, ct in body.calls():
            k = ct.get("local_key")
            if not k or k not in F.bodies or k in anchors(F) or F.bodies[k].j["kind"] == "closure" or ct.get("target") is None:
                continue
            if cb == bb or not body.dominates(ct["target"], bb) or cb in body.debug_only_blocks():
                continue
            for f in return_facts(F.bodies[k], _depth + 1):
                args = tuple(body.origin_operand(a) for a in ct["args"])
                W = lambda x: ("inl", k, x, args, body.path) if x is not None else None
                if f[0] == "cmp":
                    out.append(("cmp", W(f[1]), f[2], f[3]))
                elif f[0] == "cmp2":
                    out.append(("cmp2", f[1], W(f[2]), W(f[3])))
                elif f[0] == "ne":
                    out.append(("ne", W(f[1]), f[2]))
                elif f[0] == "pred":
                    out.append(("pred", f[1], W(f[2]), f[3], cb, tuple(W(x) for x in (f[5] if len(f) > 5 else ()))))
    return out


def return_facts(hb, _depth=1, cls=None):
    """facts that hold at every normal return of a body (non-trivial only when some path diverges);
    with cls='Ok'/'Some': at every place where the body builds a result of that class"""
    if cls is None:
        rets = [b for b in range(hb.n) if hb.term(b)["k"] == "return" and b in hb.reachable(0, unwind=False)]
    else:
        rets = [b for b, blk in enumerate(hb.blocks) for s_ in blk["stmts"] if s_["k"] == "assign" and s_["lhs"]["l"] == 0 and not s_["lhs"]["p"] and s_["rv"]["k"] == "aggregate" and s_["rv"].get("variant_name") == cls]
        # a result passed through from a callee (`Ok`-class of a tail call) is not analysed
        if any(si == "term" for (_, si, _) in hb.defs.get(0, [])):
            return []
    if not rets:
        return []
    sets = []
    for r in rets:
        sets.append([f for f in guards_at(hb, r, _depth) if f[0] in ("cmp", "cmp2", "ne", "pred")])
    common = []
    for f in sets[0]:
        key = _fact_key(hb, f)
        if all(any(_fact_key(hb, g) == key for g in s2) for s2 in sets[1:]):
            common.append(f)
    return common


def _fact_key(b, f):
    if f[0] == "cmp":
        return ("cmp", describe(b, f[1]), f[2], f[3])
    if f[0] == "cmp2":
        return ("cmp2", f[1], describe(b, f[2]), describe(b, f[3]))
    if f[0] == "ne":
        return ("ne", describe(b, f[1]), f[2])
    return ("pred", f[1], describe(b, f[2]) if f[2] is not None else None, f[3])


_ANCHORS = None


def anchors(F):
    """local functions that existed on the reference tree (lsa/anchors.json, frozen by
    lsa/freeze_floors.py): the rule tables may name them, so describe() never inlines them.
    Any other local function is a helper introduced later; its calls are described by what the
    helper returns, so extracting a helper does not change what the rules see."""
    global _ANCHORS
    if _ANCHORS is None:
        import os, json
        p = os.path.join(os.path.dirname(os.path.dirname(os.path.abspath(__file__))), "anchors.json")
        _ANCHORS = set(json.load(open(p))) if os.path.exists(p) else set()
    if _INLINE_ALSO:
        return _ANCHORS - _INLINE_ALSO
    return _ANCHORS


_INLINE_ALSO = frozenset()


class inlining:
    """`with inlining(paths):` - for the rules inside, the named reference functions are looked through
    like private helpers (sibling impls that may forward to one another: PartialEq<&str> via
    PartialEq<str>, visit_borrowed_str via visit_str, write_str via AddAssign)"""

    def __init__(self, paths):
        self.paths = frozenset(paths)

    def __enter__(self):
        global _INLINE_ALSO
        self.old = _INLINE_ALSO
        _INLINE_ALSO = self.old | self.paths

    def __exit__(self, *a):
        global _INLINE_ALSO
        _INLINE_ALSO = self.old


NAME_NORM = {
    "core::cmp::max": "core::cmp::Ord::max", "core::cmp::min": "core::cmp::Ord::min",
    "<usize as core::cmp::Ord>::max": "core::cmp::Ord::max", "<usize as core::cmp::Ord>::min": "core::cmp::Ord::min",
    # for Copy items (u8 / u16 / char are the only element types here) cloned() is copied()
    "core::iter::traits::iterator::Iterator::cloned": "core::iter::traits::iterator::Iterator::copied",
}


def _payload(body, inner, variant, depth, subst):
    """describe `(inner as variant).0`"""
    inner = strip_refs(inner)
    if inner[0] == "mem":
        ds = body.defs.get(inner[1], [])
        if len(ds) == 1 and ds[0][1] == "term":
            inner = ("call", ds[0][0])
    if inner[0] == "call":
        ct = body.term(inner[1])
        cn = callee_name(ct)
        if cn.endswith("::branch") and "Try" in (ct.get("callee") or ""):
            a = describe(body, body.origin_operand(ct["args"][0]), depth + 1, subst)
            return ("ok(%s)" if variant == 0 else "err(%s)") % a
        dty = body.local_ty(ct["dest"]["l"]) if not ct["dest"]["p"] else ""
        if variant == 1 and ct["args"] and (cn == "core::iter::traits::iterator::Iterator::next" or cn.endswith(" as core::iter::traits::iterator::Iterator>::next")):
            # the element a `for` loop / `while let Some(x) = it.next()` is looking at: the same thing
            # a closure handed to for_each / try_for_each / map receives as its argument
            return "item(%s)" % describe(body, _iter_source(body, body.origin_operand(ct["args"][0])), depth + 1, subst)
        d = describe(body, inner, depth + 1, subst)
        if dty.startswith("core::result::Result<"):
            return ("ok(%s)" if variant == 0 else "err(%s)") % d
        if dty.startswith("core::option::Option<"):
            return ("none(%s)" if variant == 0 else "some(%s)") % d
        return "v%d(%s)" % (variant, d)
    if inner[0] == "field" and len(inner) > 3 and inner[3]:
        ty = inner[3]
        d = describe(body, inner, depth + 1, subst)
        if ty.lstrip("&").startswith("core::result::Result<"):
            return ("ok(%s)" if variant == 0 else "err(%s)") % d
        if ty.lstrip("&").startswith("core::option::Option<"):
            return ("none(%s)" if variant == 0 else "some(%s)") % d
    if inner[0] in ("local", "param"):
        ty = body.local_ty(inner[1])
        d = describe(body, inner, depth + 1, subst)
        if ty.lstrip("&").startswith("core::result::Result<"):
            return ("ok(%s)" if variant == 0 else "err(%s)") % d
        if ty.lstrip("&").startswith("core::option::Option<"):
            return ("none(%s)" if variant == 0 else "some(%s)") % d
    return "v%d(%s)" % (variant, describe(body, inner, depth + 1, subst))


def _iter_source(body, e):
    """the iterator a `next()` call advances: look through `&mut iter` and the `into_iter()` of the
    for-loop desugaring"""
    e = strip_refs(e)
    for _ in range(6):
        if e[0] in ("ref", "rawptr"):
            e = strip_refs(e[2])
        elif e[0] == "deref":
            e = strip_refs(e[1])
        elif e[0] in ("mem", "local"):
            ds = body.defs.get(e[1], [])
            if len(ds) == 1:
                e = strip_refs(("call", ds[0][0]) if ds[0][1] == "term" else body.origin_rvalue(ds[0][2]))
            else:
                break
        elif e[0] == "call" and callee_name(body.term(e[1])).endswith("IntoIterator>::into_iter") or (e[0] == "call" and callee_name(body.term(e[1])) == "core::iter::traits::collect::IntoIterator::into_iter"):
            e = strip_refs(body.origin_operand(body.term(e[1])["args"][0]))
        else:
            break
    return e


# what a closure handed to a std combinator receives as its (last) argument
def combinator_item(name, arg0_desc):
    leaf = name.rsplit("::", 1)[-1]
    if name.startswith("core::iter::traits::iterator::Iterator::") or name.endswith(" as core::iter::traits::iterator::Iterator>::" + leaf):
        if leaf in ("for_each", "try_for_each", "map", "filter", "filter_map", "flat_map", "inspect", "any", "all", "find", "find_map", "take_while", "skip_while", "map_while", "position"):
            return 2, "item(%s)" % arg0_desc
        if leaf in ("fold", "try_fold"):
            return 3, "item(%s)" % arg0_desc
    if name.startswith("core::result::Result::<T, E>::"):
        if leaf in ("map", "and_then", "is_ok_and", "inspect"):
            return 2, "ok(%s)" % arg0_desc
        if leaf in ("map_err", "or_else", "unwrap_or_else", "inspect_err"):
            return 2, "err(%s)" % arg0_desc
    if name.startswith("core::option::Option::<T>::"):
        if leaf in ("map", "and_then", "filter", "is_some_and", "inspect"):
            return 2, "some(%s)" % arg0_desc
    return None


def _hdr_root(body, e, depth=0):
    """the buffer handle a header pointer was computed from: look through pointer arithmetic, casts
    and the `.ptr` field"""
    e = strip_refs(e)
    if depth > 12:
        return e
    if e[0] == "call":
        t = body.term(e[1])
        n = callee_name(t)
        if (n.startswith("core::ptr::") or n.startswith("core::ptr::non_null::")) and t["args"]:
            return _hdr_root(body, body.origin_operand(t["args"][0]), depth + 1)
        return e
    if e[0] == "cast":
        return _hdr_root(body, e[2], depth + 1)
    if e[0] == "field" and len(e) > 3 and e[3] and e[3].strip().startswith("core::ptr::non_null::NonNull<"):
        return _hdr_root(body, e[1], depth + 1)
    if e[0] == "deref":
        return _hdr_root(body, e[1], depth + 1)
    return e


STORAGE_VIEW_FNS = ("repr::Repr::as_heap_buffer", "repr::Repr::as_heap_buffer_mut", "repr::Repr::as_static_buffer", "repr::Repr::as_static_buffer_mut", "repr::Repr::as_inline_buffer_mut")


class Clo(str):
    """description of a closure value that also remembers which closure body it is and how its
    captures are described (in the describing frame's terms)"""
    def __new__(cls, text, path, caps):
        o = str.__new__(cls, text)
        o.path, o.caps = path, caps
        return o


class Env(str):
    """the environment parameter of an inlined closure body: field i is capture i"""
    def __new__(cls, caps):
        o = str.__new__(cls, "env{%s}" % ", ".join(caps))
        o.caps = caps
        return o


CLOSURE_CALLS = ("core::ops::function::FnOnce::call_once", "core::ops::function::FnMut::call_mut", "core::ops::function::Fn::call")


def closure_call_subst(body, t, depth=0, subst=None):
    """`f(args)` where f describes to a known local closure -> (closure body, parameter map) or None"""
    if not t["args"] or len(t["args"]) != 2:
        return None
    F = body.facts
    nm = callee_name(t)
    key = t.get("local_key")
    is_direct = key and key in F.bodies and F.bodies[key].j["kind"] == "closure"
    if nm not in CLOSURE_CALLS and not is_direct:
        return None
    a0 = describe(body, body.origin_operand(t["args"][0]), depth + 1, subst)
    if not isinstance(a0, Clo) or a0.path not in F.bodies:
        return None
    tup = strip_refs(body.origin_operand(t["args"][1]))
    if tup[0] != "agg":
        return None
    sub = {1: Env(a0.caps)}
    for i, x in enumerate(tup[3]):
        sub[i + 2] = describe(body, x, depth + 1, subst)
    return F.bodies[a0.path], sub


def describe(body, e, depth=0, subst=None):
    """short stable description of a provenance root, used in tables and reports.
    Canonical forms: ok(X)/err(X)/some(X) for payloads whichever way they are taken (`?`, match,
    if-let); err(X) also for the early-return value built from X's error; calls to local helper
    functions the rule tables do not name are replaced by what the helper returns."""
    e = strip_refs(e)
    k = e[0]
    if depth > 18:
        return "..."
    D = lambda x: describe(body, x, depth + 1, subst)
    if k == "inl":
        # an expression of helper e[1]'s frame, its parameters being e[3] (expressions of frame e[4])
        hb = body.facts.bodies[e[1]]
        sub = {i + 1: D(a) for i, a in enumerate(e[3])}
        return describe(hb, e[2], depth + 1, sub)
    if k == "param":
        if subst is not None and e[1] in subst:
            return subst[e[1]]
        return "p%d" % e[1]
    if k == "const":
        return "const:%s" % (e[3] or e[2])
    if k == "call":
        t = body.term(e[1])
        nm = callee_name(t)
        args = [body.origin_operand(a) for a in t["args"]]
        if "from_residual" in nm and args:
            a = D(args[0])
            return a if a.startswith("err(") else "err(%s)" % a
        # Layout::new::<T>().size() / .align() on a compile-time Layout: the number
        if nm in ("core::alloc::layout::Layout::size", "core::alloc::layout::Layout::align") and len(args) == 1:
            c0 = strip_refs(args[0])
            if c0[0] == "const" and len(c0) > 4 and c0[1] == "core::alloc::layout::Layout":
                W_ = body.facts.ptr_bytes
                raw = bytes.fromhex(c0[4])
                offs = c0[5] if len(c0) > 5 else ()
                if len(raw) == 2 * W_ and len(offs) == 2:
                    # Layout { size: usize, align: Alignment } - declared order, at the offsets the compiler chose
                    en = body.facts.endian if body.facts.endian in ("little", "big") else "little"
                    word = lambda o_: int.from_bytes(raw[o_:o_ + W_], en)
                    return "const:%d" % (word(offs[0]) if nm.endswith("::size") else word(offs[1]))
        # a typed view of the handle's storage (as_heap_buffer(&self) -> &HeapBuffer ...) is the handle
        if nm in STORAGE_VIEW_FNS and len(args) == 1:
            return D(args[0])
        # a pointer / reference to the header of a heap buffer is named by the buffer it belongs to,
        # whichever accessor or pointer arithmetic produced it
        if not t["dest"]["p"]:
            dty = body.local_ty(t["dest"]["l"]).strip()
            if dty[:1] in ("&", "*") and pointee(dty) == "repr::heap_buffer::Header" and args:
                root = _hdr_root(body, args[0])
                d = D(root)
                if root[0] == "param" and d.endswith(".0") and body.local_ty(root[1]).strip().startswith(("core::ptr::non_null::NonNull<", "*const ", "*mut ")):
                    # a helper over raw parts was handed `handle.ptr`: same buffer as the handle
                    d = d[:-2]
                return "HDR(%s)" % d
        # helper inlining
        key = t.get("local_key")
        F = body.facts
        if depth < 10 and len(args) == 2 and (nm in CLOSURE_CALLS or (key and key in F.bodies and F.bodies[key].j["kind"] == "closure")):
            cs = closure_call_subst(body, t, depth, subst)
            if cs is not None and cs[0].path != body.path:
                hb, sub = cs
                outs = sorted({describe(hb, ("call", bb) if si == "term" else hb.origin_rvalue(x), depth + 2, sub) for (bb, si, x) in hb.defs.get(0, [])})
                if outs:
                    return outs[0] if len(outs) == 1 else "phi(%s)" % ", ".join(outs)
        if key and key in F.bodies and key not in anchors(F) and depth < 10 and key != body.path:
            hb = F.bodies[key]
            defs = hb.defs.get(0, [])
            if defs and hb.j["kind"] != "closure":
                sub = {i + 1: D(a) for i, a in enumerate(args)}
                outs = sorted({describe(hb, ("call", bb) if si == "term" else hb.origin_rvalue(x), depth + 2, sub) for (bb, si, x) in defs})
                return outs[0] if len(outs) == 1 else "phi(%s)" % ", ".join(outs)
        nm = NAME_NORM.get(nm, nm)
        if args and (nm.startswith("core::iter::traits::iterator::Iterator::") or " as core::iter::traits::iterator::Iterator>::" in nm):
            # the iterator an adaptor / consumer is applied to, not the temporary that holds it
            args = [_iter_source(body, args[0])] + args[1:]
        if nm in ("core::mem::size_of", "core::mem::align_of"):
            nm += "::<%s>" % ", ".join(t.get("generic_args", []))
        if nm == "core::iter::traits::iterator::Iterator::map" and len(args) == 2:
            # `.map(|&x| x)` / `.map(|x| *x)` is `.copied()`
            cd = D(args[1])
            if isinstance(cd, Clo) and cd.path in body.facts.bodies and not cd.caps:
                cb_ = body.facts.bodies[cd.path]
                rd = [describe(cb_, ("call", bb_) if si_ == "term" else cb_.origin_rvalue(x_), depth + 2, {2: "ARG"}) for (bb_, si_, x_) in cb_.defs.get(0, [])]
                if rd == ["ARG"]:
                    return "core::iter::traits::iterator::Iterator::copied(%s)" % D(args[0])
        return "%s(%s)" % (nm, ", ".join(D(a) for a in args))
    if k == "field" and e[1][0] == "downcast":
        return _payload(body, e[1][1], e[1][2], depth, subst)
    if k == "field":
        base = D(e[1])
        if isinstance(base, Env) and e[2] < len(base.caps):
            return base.caps[e[2]]
        return "%s.%d" % (base, e[2])
    if k == "deref":
        return D(e[1])  # a dereference names the same value
    if k in ("ref", "rawptr"):
        return D(e[2])  # taking a reference names the same value
    if k == "cast":
        return "(%s as %s)" % (D(e[2]), e[3])
    if k == "bin":
        return "%s(%s, %s)" % (e[1], D(e[2]), D(e[3]))
    if k == "un":
        return "%s(%s)" % (e[1], D(e[2]))
    if k == "phi":
        return "phi(%s)" % ", ".join(sorted({D(x) for x in e[1]}))
    if k in ("local", "mem", "loop"):
        return "%s:%s" % (k, body.local_name(e[1]) or e[1])
    if k == "fn":
        txt = "fn:%s%s" % (e[3] or e[1], ("::<%s>" % ", ".join(e[2])) if e[2] and not e[3] else "")
        cb = body.facts.bodies.get(e[3] or e[1])
        if cb is not None and cb.j["kind"] == "closure":
            return Clo(txt, cb.path, [])
        return txt
    if k == "agg":
        cb = body.facts.bodies.get(e[1])
        if cb is not None and cb.j["kind"] == "closure":
            caps = [D(x) for x in e[3]]
            return Clo("%s::%s{%s}" % (e[1], e[2], ", ".join(caps)), e[1], caps)
        if e[1] == "core::result::Result" and e[2] == "Err" and len(e[3]) == 1:
            a = D(e[3][0])
            if a.startswith("err("):
                return a
            m = __import__("re").match(r"^(?:<.* as core::convert::From<.*>>::from|core::convert::From::from)\((err\(.*\))\)$", a)
            if m:
                return m.group(1)
        return "%s::%s{%s}" % (e[1], e[2], ", ".join(D(x) for x in e[3]))
    return k


def inlined_calls(body, depth=2, _seen=None):
    """calls of a body, plus (recursively) the calls of local helper functions that are not
    anchors: yields (body, bb, terminator)"""
    if _seen is None:
        _seen = {body.path}
    F = body.facts
    for bb, t in body.calls():
        yield body, bb, t
        k = t.get("local_key")
        if k and depth > 0 and k in F.bodies and k not in anchors(F) and k not in _seen and F.bodies[k].j["kind"] != "closure":
            _seen.add(k)
            for x in inlined_calls(F.bodies[k], depth - 1, _seen):
                yield x


def find_call(body, e, names, depth=0):
    """first call to one of `names` inside provenance expression e (through call arguments,
    payload projections, aggregates and phis) -> (bb) or None"""
    e = strip_refs(e)
    if depth > 14:
        return None
    k = e[0]
    if k == "call":
        t = body.term(e[1])
        if callee_name(t) in names:
            return e[1]
        for a in t["args"]:
            r = find_call(body, body.origin_operand(a), names, depth + 1)
            if r is not None:
                return r
        return None
    if k in ("field", "downcast", "deref"):
        return find_call(body, e[1], names, depth + 1)
    if k in ("ref", "rawptr", "cast", "un"):
        return find_call(body, e[2], names, depth + 1)
    if k == "mem":
        for d in body.defs.get(e[1], []):
            x = ("call", d[0]) if d[1] == "term" else body.origin_rvalue(d[2])
            if x != e:
                r = find_call(body, x, names, depth + 1)
                if r is not None:
                    return r
        return None
    if k == "phi":
        for x in e[1]:
            r = find_call(body, x, names, depth + 1)
            if r is not None:
                return r
    if k == "agg":
        for x in e[3]:
            r = find_call(body, x, names, depth + 1)
            if r is not None:
                return r
    if k == "bin":
        return find_call(body, e[2], names, depth + 1) or find_call(body, e[3], names, depth + 1)
    return None


def cmp_facts(body):
    """all integer comparison edge facts of a body: list of (root description, lo, hi, switch bb, label)"""
    out = []
    for sb in range(body.n):
        t = body.term(sb)
        if t["k"] != "switch" or is_debug_only_switch(body, sb) or sb in body.debug_only_blocks():
            continue
        labs = [v for v, _ in t["arms"]] + ["otherwise"]
        for lab in labs:
            f = edge_fact(body, sb, lab)
            if f and f[0] == "cmp":
                out.append((describe(body, f[1]), f[2], f[3], sb, lab))
    return out


def peel_ptr(body, e):
    """look through library functions that return the pointer/reference they are given"""
    from typestate import PTR_TRANSPARENT
    e = strip_refs(e)
    while e[0] == "call" and callee_name(body.term(e[1])) in PTR_TRANSPARENT and body.term(e[1])["args"]:
        e = strip_refs(body.origin_operand(body.term(e[1])["args"][0]))
    return e


def callers_of(F, key):
    """call sites of local function `key`: list of (body, bb, terminator)"""
    out = []
    for b in F.bodies.values():
        for bb, t in b.calls():
            if t.get("local_key") == key:
                out.append((b, bb, t))
    return out


# ----------------------------------------------------------------------------- inlined sites
def described_guards(body, bb, subst=None):
    """guards_at(), with every expression already described (in the context given by subst):
       ('cmp', desc, lo, hi) ('cmp2', op, descA, descB) ('pred', callee, desc_arg0, bool) ('cls', desc, cls) ('ne', desc, k)"""
    out = []
    for g in guards_at(body, bb):
        k = g[0]
        if k == "cmp":
            out.append(("cmp", describe(body, g[1], 0, subst), g[2], g[3]))
        elif k == "cmp2":
            out.append(("cmp2", g[1], describe(body, g[2], 0, subst), describe(body, g[3], 0, subst)))
        elif k == "pred":
            out.append(("pred", g[1], describe(body, g[2], 0, subst) if g[2] is not None else None, g[3]))
        elif k == "cls":
            out.append(("cls", describe(body, g[3], 0, subst) if g[3] is not None else None, g[2]))
        elif k == "ne":
            out.append(("ne", describe(body, g[1], 0, subst), g[2]))
    return out


class Site:
    """a call site seen from a root function, possibly inside private helpers / closures that the
    root calls (which are not anchors): guards and operand descriptions are expressed in the root's
    terms, so extracting the code into a helper does not change what a rule sees"""

    def __init__(self, root, chain, t, subst):
        self.root, self.chain, self.t, self.subst = root, chain, t, subst
        self.body, self.bb = chain[-1]

    @property
    def name(self):
        return callee_name(self.t)

    def desc(self, i):
        return describe(self.body, self.body.origin_operand(self.t["args"][i]), 0, self.subst[-1])

    def guards(self):
        out = []
        for (b, bb), sub in zip(self.chain, self.subst):
            out += described_guards(b, bb, sub)
        return out

    def label(self):
        n = self.name
        b, bb = self.chain[0]
        c = sum(1 for i in range(bb) if b.term(i)["k"] == "call" and callee_name(b.term(i)) == callee_name(b.term(bb)))
        via = "" if len(self.chain) == 1 else " via " + "/".join(x.path.rsplit("::", 1)[-1] for x, _ in self.chain[1:])
        return "%s#%d%s" % (n if len(self.chain) == 1 else callee_name(b.term(bb)), c, (">" + n.rsplit("::", 1)[-1] + via) if via else "")

    @property
    def line(self):
        return self.t.get("line", 0)


class FnItemSite(Site):
    """the call a std combinator makes to a local function item it was handed"""

    def __init__(self, root, chain, t, subst, fname, descs):
        Site.__init__(self, root, chain, t, subst)
        self._name, self._descs = fname, descs

    @property
    def name(self):
        return self._name

    def desc(self, i):
        return self._descs[i] if i < len(self._descs) else "?"

    def label(self):
        return "%s#via-%s" % (self._name, callee_name(self.t).rsplit("::", 1)[-1])


def inlined_sites(root, want, depth=3):
    """all call sites reachable from `root` through non-anchor helpers and local closures whose callee
    name satisfies want(name)"""
    F = root.facts
    out = []

    # frame stack: subst[i] is the parameter map of chain[i]'s body
    def walk2(body, chain, subs, d, seen):
        for bb, t in body.calls():
            n = callee_name(t)
            here = chain + [(body, bb)]
            if want(n):
                out.append(Site(root, here, t, subs))
            k = t.get("local_key")
            targets = []
            if k and k in F.bodies and k not in anchors(F) and F.bodies[k].j["kind"] != "closure":
                targets.append((k, True))
            for c in t.get("cb_closures", []):
                if c in F.bodies and F.bodies[c].j["kind"] != "closure":
                    # a function item, not a closure (`.and_then(HeapBuffer::allocate_ptr)`): called with
                    # the element the combinator passes on
                    if want(c):
                        ads = [describe(body, body.origin_operand(a), 0, subs[-1]) for a in t["args"]]
                        item = combinator_item(n, ads[0]) if ads else None
                        if item:
                            out.append(FnItemSite(root, here, t, subs, c, [item[1]]))
                    if c in anchors(F):
                        continue
                if c in F.bodies:
                    targets.append((c, False))
            for ci in t.get("cb_impls", []):
                # `Capacity::new(n).and_then(HeapBuffer::allocate_ptr)`: a function item handed to a std
                # combinator is called with the element the combinator passes on
                fk = ci.get("local_key")
                if fk and want(ci.get("inst_def") or fk):
                    ads = [describe(body, body.origin_operand(a), 0, subs[-1]) for a in t["args"]]
                    item = combinator_item(n, ads[0]) if ads else None
                    if item:
                        out.append(FnItemSite(root, here, t, subs, ci.get("inst_def") or fk, [item[1]]))
            cs = closure_call_subst(body, t, 0, subs[-1])
            if cs is not None and d > 0 and cs[0].path not in seen:
                # `f(x)` where f is a closure the root (or a helper on the way) built: its body runs
                # here, with its captures and arguments described in the root's terms
                walk2(cs[0], here, subs + [cs[1]], d - 1, seen | {cs[0].path})
            for (k2, is_fn) in targets:
                if d <= 0 or k2 in seen:
                    continue
                hb = F.bodies[k2]
                sub = {i + 1: describe(body, body.origin_operand(a), 0, subs[-1]) for i, a in enumerate(t["args"])} if is_fn else None
                if not is_fn:
                    # a closure handed to a std combinator: captures and the element it is applied to,
                    # in the root's terms
                    sub = {}
                    ads = [describe(body, body.origin_operand(a), 0, subs[-1]) for a in t["args"]]
                    if ads and (n.startswith("core::iter::traits::iterator::Iterator::") or " as core::iter::traits::iterator::Iterator>::" in n):
                        ads[0] = describe(body, _iter_source(body, body.origin_operand(t["args"][0])), 0, subs[-1])
                    for a in ads:
                        if isinstance(a, Clo) and a.path == k2:
                            sub[1] = Env(a.caps)
                    ci = combinator_item(n, ads[0]) if ads else None
                    if ci:
                        sub[ci[0]] = ci[1]
                    sub = sub or None
                walk2(hb, here, subs + [sub], d - 1, seen | {k2})
        # closures constructed here and called later through std combinators are found via cb_closures

    walk2(root, [], [None], depth, {root.path})
    return out


def inlined_bodies(root, depth=3):
    """the root plus the non-anchor helper functions it calls (transitively), each with the map
    describing its parameters in the root's terms: list of (body, subst)"""
    F = root.facts
    out = [(root, None)]
    seen = {root.path}

    def walk(body, sub, d):
        for bb, t in body.calls():
            k = t.get("local_key")
            if k and k in F.bodies and k not in anchors(F) and k not in seen and F.bodies[k].j["kind"] != "closure" and d > 0:
                seen.add(k)
                hb = F.bodies[k]
                s2 = {i + 1: describe(body, body.origin_operand(a), 0, sub) for i, a in enumerate(t["args"])}
                out.append((hb, s2))
                walk(hb, s2, d - 1)
    walk(root, None, depth)
    return out


def anchor_callers(F, key, depth=4):
    """anchor functions from which `key` (a non-anchor helper or a closure) is reached through
    non-anchor helpers / closures only"""
    out, seen = set(), {key}
    work = [(key, depth)]
    while work:
        k, d = work.pop()
        b = F.bodies.get(k)
        if b is None:
            continue
        parents = set()
        if b.j["kind"] == "closure" and b.j.get("parent"):
            parents.add(b.j["parent"])
        for cb, _, _ in callers_of(F, k):
            parents.add(cb.path)
        for p in parents:
            if p in anchors(F) and F.bodies.get(p) is not None and F.bodies[p].j["kind"] != "closure":
                out.add(p)
            elif p not in seen and d > 0:
                seen.add(p)
                work.append((p, d - 1))
    return out


EMPTY_PREDS = ("core::str::<impl str>::is_empty", "core::slice::<impl [T]>::is_empty", "LeanString::is_empty", "repr::Repr::is_empty")
LEN_FNS = ("core::str::<impl str>::len", "core::slice::<impl [T]>::len", "LeanString::len", "repr::Repr::len")


def empty_edge(body, sb, lab, what, subst=None):
    """the switch edge (sb, lab) is taken exactly when the text / slice described by one of `what`
    is empty: `x.is_empty()` true, or `x.len() == 0`"""
    f = edge_fact(body, sb, lab)
    if not f:
        return False
    isw = what if callable(what) else (lambda d: d in what)
    if f[0] == "pred" and f[1] in EMPTY_PREDS and f[3] is True:
        return isw(describe(body, f[2], 0, subst))
    if f[0] == "cmp" and (f[2], f[3]) == (0, 0):
        d = describe(body, f[1], 0, subst)
        for ln in LEN_FNS:
            if d.startswith(ln + "(") and d.endswith(")") and isw(d[len(ln) + 1:-1]):
                return True
    return False


def reach_cut(body, start, stop=None, cut=None):
    """blocks reachable from start along normal edges, not expanding `stop` blocks and not
    following the switch edges `cut(sb, label)` accepts"""
    seen, work = {start}, [start]
    while work:
        x = work.pop()
        if stop and stop(x):
            continue
        for y, lab in body.succ(x, unwind=False):
            if cut and isinstance(lab, tuple) and cut(x, lab[1]):
                continue
            if y not in seen:
                seen.add(y)
                work.append(y)
    return seen


def must_pass_call(body, names, depth=2, cut=None):
    """every path entry -> return of `body` passes a call to one of `names`, directly or inside a
    non-anchor helper that itself always passes one (paths through an edge `cut` accepts are exempt)"""
    F = body.facts
    blocks = set()
    for bb, t in body.calls():
        n = callee_name(t)
        if n in names:
            blocks.add(bb)
        else:
            k = t.get("local_key")
            if k and depth > 0 and k in F.bodies and k not in anchors(F) and must_pass_call(F.bodies[k], names, depth - 1):
                blocks.add(bb)
    if not blocks:
        return False
    reach = body.reachable(0, unwind=False, stop=lambda b: b in blocks) if cut is None else reach_cut(body, 0, lambda b: b in blocks, cut)
    return not any(body.term(b)["k"] == "return" and b not in blocks for b in reach)
