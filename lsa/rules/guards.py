"""A3 edge facts + dominating-guard queries (R-guard)."""
from facts import strip_refs, callee_name, is_debug_only_switch


def eval_int(e):
    k = e[0]
    if k == "const":
        return e[2] if isinstance(e[2], int) else None
    if k == "cast" and e[1] == "IntToInt":
        return eval_int(e[2])
    if k == "field" and e[1][0] == "bin" and e[1][1].endswith("WithOverflow") and e[2] == 0:
        a, b = eval_int(e[1][2]), eval_int(e[1][3])
        if a is None or b is None:
            return None
        return {"AddWithOverflow": a + b, "SubWithOverflow": a - b, "MulWithOverflow": a * b}[e[1][1]]
    if k == "bin" and e[1] in ("Add", "Sub", "Mul", "BitOr", "BitAnd", "Shl"):
        a, b = eval_int(e[2]), eval_int(e[3])
        if a is None or b is None:
            return None
        return {"Add": a + b, "Sub": a - b, "Mul": a * b, "BitOr": a | b, "BitAnd": a & b, "Shl": a << b}[e[1]]
    return None


def dominating_edges(body, target_bb):
    """Edges (switch_bb, label) such that every path entry -> target_bb uses that edge.
    label = arm value or 'otherwise'.  Debug-only switches are skipped (both arms feasible and a
    debug assertion never counts as a guard)."""
    out = []
    for sb in range(body.n):
        t = body.term(sb)
        if t["k"] != "switch" or is_debug_only_switch(body, sb):
            continue
        if sb in body.debug_only_blocks():
            continue
        arms = [(v, b) for v, b in t["arms"]] + [("otherwise", t["otherwise"])]
        for lab, tgt in arms:
            # remove edge (sb -> tgt with this label) and test reachability of target
            if _reach_without_edge(body, target_bb, sb, lab):
                continue
            out.append((sb, lab))
    return out


def _reach_without_edge(body, target, sb, lab):
    seen = {0}
    st = [0]
    while st:
        b = st.pop()
        if b == target:
            return True
        for s, l in body.succ(b):
            if b == sb and isinstance(l, tuple) and l[0] == "sw" and l[1] == lab:
                continue
            if s not in seen:
                seen.add(s)
                st.append(s)
    return target in seen


def edge_fact(body, sb, lab):
    """Interpret the switch edge as an atomic fact.
    -> ('cmp', root_expr, lo, hi)   integer root constrained to [lo, hi] (None = unbounded)
       ('pred', callee, arg0_expr, bool)
       ('cls', call_bb, 'Ok'|'Err'|'Some'|'None')
       None"""
    t = body.term(sb)
    e = body.origin_operand(t["discr"])
    if e[0] == "ref":
        e = strip_refs(e)
    neg = False
    if t["discr_ty"] == "bool":
        if lab == "otherwise":
            val = not any(v == 1 for v, _ in t["arms"]) if any(v == 1 for v, _ in t["arms"]) else True
            # usual shape: arms [0 -> F], otherwise -> T
            val = True if all(v == 0 for v, _ in t["arms"]) else None
        else:
            val = bool(lab)
        if val is None:
            return None
        while e[0] == "un" and e[1] == "Not":
            e = e[2]
            val = not val
        if e[0] == "call":
            ct = body.term(e[1])
            a0 = body.origin_operand(ct["args"][0]) if ct["args"] else None
            return ("pred", callee_name(ct), a0, val, e[1])
        if e[0] == "bin" and e[1] in ("Eq", "Ne", "Lt", "Le", "Gt", "Ge"):
            op, a, b = e[1], strip_refs(e[2]), strip_refs(e[3])
            ca, cb = eval_int(a), eval_int(b)
            if ca is not None and cb is None:
                op = {"Eq": "Eq", "Ne": "Ne", "Lt": "Gt", "Le": "Ge", "Gt": "Lt", "Ge": "Le"}[op]
                a, b, ca, cb = b, a, cb, ca
            if cb is None:
                return ("cmp2", op if val else {"Eq": "Ne", "Ne": "Eq", "Lt": "Ge", "Le": "Gt", "Gt": "Le", "Ge": "Lt"}[op], a, b)
            if not val:
                op = {"Eq": "Ne", "Ne": "Eq", "Lt": "Ge", "Le": "Gt", "Gt": "Le", "Ge": "Lt"}[op]
            lo, hi = None, None
            if op == "Eq":
                lo = hi = cb
            elif op == "Lt":
                hi = cb - 1
            elif op == "Le":
                hi = cb
            elif op == "Gt":
                lo = cb + 1
            elif op == "Ge":
                lo = cb
            else:
                return ("ne", a, cb)
            return ("cmp", a, lo, hi)
        return None
    if e[0] == "discr":
        inner = strip_refs(e[1])
        if inner[0] == "mem":
            ds = body.defs.get(inner[1], [])
            if len(ds) == 1 and ds[0][1] == "term":
                inner = ("call", ds[0][0])
        if inner[0] != "call" and lab != "otherwise":
            # discriminant of a payload / local that is not directly a call result: classify by type
            of = None
            for st in body.blocks[sb]["stmts"]:
                if st["k"] == "assign" and st["rv"]["k"] == "discriminant":
                    of = st["rv"].get("of")
            if of and of.startswith("core::result::Result<"):
                return ("cls", None, "Ok" if lab == 0 else "Err", inner)
            if of and of.startswith("core::option::Option<"):
                return ("cls", None, "Some" if lab == 1 else "None", inner)
        if inner[0] == "call" and lab != "otherwise":
            ct = body.term(inner[1])
            n = callee_name(ct)
            dty = body.local_ty(ct["dest"]["l"]) if not ct["dest"]["p"] else ""
            if n.endswith("::branch"):
                a0 = strip_refs(body.origin_operand(ct["args"][0]))
                src = a0[1] if a0[0] == "call" else None
                return ("cls", src, "Ok" if lab == 0 else "Err", a0)
            if dty.startswith("core::option::Option"):
                return ("cls", inner[1], "Some" if lab == 1 else "None", inner)
            if dty.startswith("core::result::Result"):
                return ("cls", inner[1], "Ok" if lab == 0 else "Err", inner)
    return None


def guards_at(body, bb):
    """all interpreted facts that hold on every path reaching block bb"""
    out = []
    for sb, lab in dominating_edges(body, bb):
        f = edge_fact(body, sb, lab)
        if f:
            out.append(f)
    return out


def describe(body, e, depth=0):
    """short stable description of a provenance root, used in tables and reports"""
    e = strip_refs(e)
    k = e[0]
    if depth > 14:
        return "..."
    if k == "param":
        return "p%d" % e[1]
    if k == "const":
        return "const:%s" % (e[3] or e[2])
    if k == "call":
        t = body.term(e[1])
        nm = callee_name(t)
        if nm in ("core::mem::size_of", "core::mem::align_of"):
            nm += "::<%s>" % ", ".join(t.get("generic_args", []))
        return "%s(%s)" % (nm, ", ".join(describe(body, body.origin_operand(a), depth + 1) for a in t["args"]))
    if k == "field" and e[1][0] == "downcast":
        inner = strip_refs(e[1][1])
        if inner[0] == "mem":
            ds = body.defs.get(inner[1], [])
            if len(ds) == 1 and ds[0][1] == "term":
                inner = ("call", ds[0][0])
        if inner[0] == "call":
            ct = body.term(inner[1])
            if callee_name(ct).endswith("::branch"):
                return "ok(%s)" % describe(body, body.origin_operand(ct["args"][0]), depth + 1)
        return "v%d(%s)" % (e[1][2], describe(body, inner, depth + 1))
    if k == "field":
        return "%s.%d" % (describe(body, e[1], depth + 1), e[2])
    if k == "deref":
        return "*%s" % describe(body, e[1], depth + 1)
    if k in ("ref", "rawptr"):
        return "&%s" % describe(body, e[2], depth + 1)
    if k == "cast":
        return "(%s as %s)" % (describe(body, e[2], depth + 1), e[3])
    if k == "bin":
        return "%s(%s, %s)" % (e[1], describe(body, e[2], depth + 1), describe(body, e[3], depth + 1))
    if k == "un":
        return "%s(%s)" % (e[1], describe(body, e[2], depth + 1))
    if k == "phi":
        return "phi(%s)" % ", ".join(sorted(describe(body, x, depth + 1) for x in e[1]))
    if k in ("local", "mem", "loop"):
        return "%s:%s" % (k, body.local_name(e[1]) or e[1])
    if k == "fn":
        return "fn:%s%s" % (e[3] or e[1], ("::<%s>" % ", ".join(e[2])) if e[2] and not e[3] else "")
    if k == "agg":
        return "%s::%s{%s}" % (e[1], e[2], ", ".join(describe(body, x, depth + 1) for x in e[3]))
    return k
