"""C13 rules."""
from facts import callee_name, strip_refs


def rule_no_growth_in_shrink(ctx, rule="C13-nogrowth"):
    F, cg = ctx.F, ctx.cg
    root = "repr::Repr::shrink_to"
    ctx.need(rule, root, "anchor", root in F.bodies, "Repr::shrink_to not found")
    if root not in F.bodies:
        return
    seen, leaves, users, parent = cg.reach([root])
    tgt = "repr::heap_buffer::amortized_growth"
    ctx.need(rule, tgt, "anchor", tgt in F.bodies, "amortized_growth not found (growth rule moved?)")
    if tgt in seen:
        ctx.ob(rule, root, "reach:amortized_growth", False,
               detail="the growth rule amortized_growth is reachable from shrink_to via %s: a shrink can size the new buffer at 1.5x the length instead of the requested capacity" % cg.path_to(parent, tgt))
    else:
        ctx.ob(rule, root, "reach:amortized_growth", True, how="amortized_growth not reachable from shrink_to (%d bodies reached)" % len(seen))
