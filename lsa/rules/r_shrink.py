"""C13 rules."""
from facts import callee_name, strip_refs


def rule_no_growth_in_shrink(ctx, rule="C13-nogrowth"):
    F, cg = ctx.F, ctx.cg
    root = "repr::Repr::shrink_to"
    ctx.need(rule, root, "anchor", root in F.bodies, "Repr::shrink_to not found")
    if root not in F.bodies:
        return
    seen, leaves, users, parent = cg.reach([root])
    tgt = "repr::heap_buffer::amortized_growth"
    ctx.need(rule, tgt, "anchor", tgt in F.bodies, "amortized_growth not found (growth rule moved?)")
    if tgt in seen:
        ctx.ob(rule, root, "reach:amortized_growth", False,
               detail="the growth rule amortized_growth is reachable from shrink_to via %s: a shrink can size the new buffer at 1.5x the length instead of the requested capacity" % cg.path_to(parent, tgt))
    else:
        ctx.ob(rule, root, "reach:amortized_growth", True, how="amortized_growth not reachable from shrink_to (%d bodies reached)" % len(seen))


def rule_shrink_guards(ctx, rule="C13-guard"):
    import re
    from guards import inlined_sites, describe
    from typestate import Solver, T
    F, cg = ctx.F, ctx.cg
    M = F.const_scalar("repr::MAX_INLINE_SIZE")
    b = F.bodies.get("repr::Repr::shrink_to")
    if not b:
        return
    newcap = r"^core::cmp::Ord::max\(repr::heap_buffer::HeapBuffer::len\(.*p1.*\), p2\)$"
    # (any operation of the crate that can allocate: HeapBuffer constructors / realloc, but also
    # Repr::with_capacity, Repr::from_str .. when shrink_to is routed through them)
    from guards import anchors
    is_gate = lambda n: n in F.bodies and n in anchors(F) and n != b.path and (n.startswith("repr::heap_buffer::") or n.startswith("repr::Repr::")) and cg.may_allocate(n)
    sites = inlined_sites(b, is_gate)
    for st in sites:
        gs = st.guards()
        smaller = any(g[0] == "cmp2" and ((g[1] == "Lt" and re.search(newcap, g[2]) and "HeapBuffer::capacity(" in g[3]) or (g[1] == "Gt" and re.search(newcap, g[3]) and "HeapBuffer::capacity(" in g[2])) for g in gs)
        ctx.ob(rule, b.path, "only-when-smaller:" + st.label(), smaller, line=st.line, how="dominated by max(len, min) < old capacity",
               detail="%s in shrink_to is not behind `new_capacity < old_capacity`: a shrink request at or above the current capacity can reallocate, grow or fail" % st.name)
        cap = st.desc(len(st.t["args"]) - 1)      # (the capacity is the last argument: realloc(self, n), with_capacity(n))
        ctx.ob(rule, b.path, "capacity=request:" + st.label(), re.search(newcap, cap) is not None, line=st.line, how="capacity operand = max(len, min_capacity)",
               detail="%s in shrink_to is sized with %s instead of max(len, min_capacity)" % (st.name, cap))
    ctx.need(rule, b.path, "sites", len(sites) >= 2, "shrink_to has %d buffer-changing call sites (expected the in-place and the shared one)" % len(sites), how="%d buffer-changing sites" % len(sites))
    for st in inlined_sites(b, lambda n: n == "repr::inline_buffer::InlineBuffer::new"):
        ok = any(g[0] == "cmp" and g[3] == M and g[2] is None and re.search(newcap, g[1]) for g in st.guards())
        ctx.ob(rule, b.path, "inline-conversion", ok, how="inline conversion behind max(len, min) <= %d" % M, detail="heap-to-inline conversion in shrink_to is not behind `max(len, min_capacity) <= %d`" % M)
    S = Solver(F)
    for k in ("I", "S"):
        t0 = T(kind=k, uniq=False, ref="own", acq=False, inc=0, asg=False, dirty=False, ret=None, facts=frozenset())
        res, ev = S.walk(b, ("param", 1), t0)
        bad = [(c, t.kind, t.asg, t.dirty) for c, t in res if t.asg or t.dirty or t.kind != k or c != "Ok"]
        ctx.ob(rule, b.path, "non-heap-untouched[%s]" % k, not bad, how="kind=%s returns Ok without touching the handle" % k, detail="shrink_to on a non-heap string has an effect: %s" % bad)
    for st in inlined_sites(b, lambda n: n in ("repr::heap_buffer::HeapBuffer::with_exact_capacity", "repr::heap_buffer::HeapBuffer::new", "repr::inline_buffer::InlineBuffer::new")):
        src = st.desc(0)
        ctx.ob(rule, b.path, "copy-source:" + st.label(), src.startswith("repr::heap_buffer::HeapBuffer::as_str(") and "p1" in src, how="copies heap.as_str()", detail="shrink_to copies %s" % src)


def rule_realloc_lands(ctx, rule="C13-lands"):
    """HeapBuffer::realloc(new_capacity) returns Ok only after the buffer records new_capacity: every
    block that builds the Ok result is dominated by a fresh Header written with Capacity::new(p2)
    (in place, after the allocator call) or by `*self = <buffer allocated with that capacity>`.
    An Ok without either leaves capacity() at the old value: a shrink that did not land, or a
    reservation that promises room it never got."""
    from guards import describe, anchors
    F = ctx.F
    fn = "repr::heap_buffer::HeapBuffer::realloc"
    b = F.bodies.get(fn)
    ctx.need(rule, fn, "anchor", b is not None, "HeapBuffer::realloc not found")
    if not b:
        return
    CAP = "repr::heap_buffer::internal::Capacity::"
    newcap = "ok(%snew(p2))" % CAP
    rec = []   # blocks after which the recorded capacity is new_capacity
    for bb, blk in enumerate(b.blocks):
        for s in blk["stmts"]:
            if s["k"] != "assign":
                continue
            rv = s["rv"]
            if rv["k"] == "aggregate" and rv.get("adt") == "repr::heap_buffer::Header":
                if any(describe(b, b.origin_operand(f)) == newcap for f in rv["fields"]):
                    rec.append(bb)
            if s["lhs"]["l"] == 1 and s["lhs"]["p"] == ["deref"]:
                e = strip_refs(b.origin_rvalue(rv))
                d = describe(b, e)
                if e[0] in ("mem", "local"):
                    # a `let mut new_buf = ...?;` that was filled through &mut before being moved in
                    d = " | ".join(describe(b, ("call", x[0]) if x[1] == "term" else b.origin_rvalue(x[2])) for x in b.defs.get(e[1], []))
                if ("HeapBuffer::with_capacity(%sas_usize(%s))" % (CAP, newcap)) in d or ("HeapBuffer::allocate_ptr(%s)" % newcap) in d:
                    rec.append(bb)
                elif "HeapBuffer::with_exact_capacity(" in d and d.rstrip(")").endswith(", %sas_usize(%s" % (CAP, newcap.rstrip(")"))):
                    rec.append(bb)      # (CAPROOT: with_exact_capacity(text, n) allocates exactly n)
    # a header written inside a private helper the anchor calls (write_header(ptr, capacity))
    for bb, t in b.calls():
        k = t.get("local_key")
        if k and k in F.bodies and k not in anchors(F):
            hb = F.bodies[k]
            sub = {i + 1: describe(b, b.origin_operand(a)) for i, a in enumerate(t["args"])}
            for blk in hb.blocks:
                for s in blk["stmts"]:
                    if s["k"] == "assign" and s["rv"]["k"] == "aggregate" and s["rv"].get("adt") == "repr::heap_buffer::Header":
                        if any(describe(hb, hb.origin_operand(f), 0, sub) == newcap for f in s["rv"]["fields"]):
                            rec.append(bb)
    ctx.need(rule, fn, "records", bool(rec), "realloc never records the new capacity (no Header{capacity: Capacity::new(new_capacity)} write, no replacement buffer)", how="%d recording site(s)" % len(rec))
    n = 0
    for bb, blk in enumerate(b.blocks):
        for s in blk["stmts"]:
            if s["k"] == "assign" and s["lhs"]["l"] == 0 and not s["lhs"]["p"] and s["rv"]["k"] == "aggregate" and s["rv"].get("variant_name") == "Ok":
                ok = any(b.dominates(r, bb) for r in rec)
                ctx.ob(rule, fn, "ok-after-record#%d" % n, ok, line=s.get("line", 0), how="Ok dominated by the write of the new capacity",
                       detail="realloc can return Ok without having recorded the new capacity: capacity() keeps the old value although the caller was told the buffer now has the requested one")
                n += 1
    ctx.need(rule, fn, "ok-sites", n >= 1, "realloc has no Ok return", how="%d Ok return(s)" % n)
