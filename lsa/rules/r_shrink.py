"""C13 rules."""
from facts import callee_name, strip_refs


def rule_no_growth_in_shrink(ctx, rule="C13-nogrowth"):
    F, cg = ctx.F, ctx.cg
    root = "repr::Repr::shrink_to"
    ctx.need(rule, root, "anchor", root in F.bodies, "Repr::shrink_to not found")
    if root not in F.bodies:
        return
    seen, leaves, users, parent = cg.reach([root])
    tgt = "repr::heap_buffer::amortized_growth"
    ctx.need(rule, tgt, "anchor", tgt in F.bodies, "amortized_growth not found (growth rule moved?)")
    if tgt in seen:
        ctx.ob(rule, root, "reach:amortized_growth", False,
               detail="the growth rule amortized_growth is reachable from shrink_to via %s: a shrink can size the new buffer at 1.5x the length instead of the requested capacity" % cg.path_to(parent, tgt))
    else:
        ctx.ob(rule, root, "reach:amortized_growth", True, how="amortized_growth not reachable from shrink_to (%d bodies reached)" % len(seen))


def rule_shrink_guards(ctx, rule="C13-guard"):
    import re
    from guards import guards_at, describe
    from r_reach import heap_gate_sites, site_name
    F, cg = ctx.F, ctx.cg
    M = F.const_scalar("repr::MAX_INLINE_SIZE")
    b = F.bodies.get("repr::Repr::shrink_to")
    if not b:
        return
    newcap = r"^core::cmp::Ord::max\(repr::heap_buffer::HeapBuffer::len\(.*p1.*\), p2\)$"
    n = 0
    for bb, t in b.calls():
        k = t.get("local_key")
        nme = callee_name(t)
        if not (k and k.startswith("repr::heap_buffer::") and cg.may_allocate(k)):
            continue
        n += 1
        gs = guards_at(b, bb)
        smaller = False
        for g in gs:
            if g[0] == "cmp2":
                op, x, y = g[1], describe(b, g[2]), describe(b, g[3])
                if op == "Lt" and re.search(newcap, x) and "HeapBuffer::capacity(" in y:
                    smaller = True
                if op == "Gt" and re.search(newcap, y) and "HeapBuffer::capacity(" in x:
                    smaller = True
        ctx.ob(rule, b.path, "only-when-smaller:" + site_name(b, bb), smaller, line=t.get("line", 0), how="dominated by max(len, min) < old capacity",
               detail="%s in shrink_to is not behind `new_capacity < old_capacity`: a shrink request at or above the current capacity can reallocate, grow or fail" % nme)
        # capacity operand is the request
        ai = 1
        cap = describe(b, b.origin_operand(t["args"][ai]))
        ctx.ob(rule, b.path, "capacity=request:" + site_name(b, bb), re.search(newcap, cap) is not None, line=t.get("line", 0), how="capacity operand = max(len, min_capacity)",
               detail="%s in shrink_to is sized with %s instead of max(len, min_capacity)" % (nme, cap))
    ctx.need(rule, b.path, "sites", n >= 2, "shrink_to has %d buffer-changing call sites (expected the in-place and the shared one)" % n, how="%d buffer-changing sites" % n)
    # inline conversion behind the exact threshold
    for bb, t in b.calls():
        if callee_name(t) == "repr::inline_buffer::InlineBuffer::new":
            gs = guards_at(b, bb)
            ok = any(g[0] == "cmp" and g[3] == M and g[2] is None and re.search(newcap, describe(b, g[1])) for g in gs)
            ctx.ob(rule, b.path, "inline-conversion", ok, how="inline conversion behind max(len, min) <= %d" % M, detail="heap-to-inline conversion in shrink_to is not behind `max(len, min_capacity) <= %d`" % M)
    # non-heap receivers: no effect at all
    from typestate import Solver, T
    S = Solver(F)
    for k in ("I", "S"):
        t0 = T(kind=k, uniq=False, ref="own", acq=False, inc=0, asg=False, dirty=False, ret=None, facts=frozenset())
        res, ev = S.walk(b, ("param", 1), t0)
        bad = [(c, t.kind, t.asg, t.dirty) for c, t in res if t.asg or t.dirty or t.kind != k or c != "Ok"]
        ctx.ob(rule, b.path, "non-heap-untouched[%s]" % k, not bad, how="kind=%s returns Ok without touching the handle" % k, detail="shrink_to on a non-heap string has an effect: %s" % bad)
    # the text copied is the receiver's own
    for bb, t in b.calls():
        if callee_name(t) in ("repr::heap_buffer::HeapBuffer::with_exact_capacity", "repr::heap_buffer::HeapBuffer::new", "repr::inline_buffer::InlineBuffer::new"):
            src = describe(b, b.origin_operand(t["args"][0]))
            ctx.ob(rule, b.path, "copy-source:" + site_name(b, bb), src.startswith("repr::heap_buffer::HeapBuffer::as_str(") and "p1" in src, how="copies heap.as_str()", detail="shrink_to copies %s" % src)
