"""Fact-file loader, CFG utilities (A1) and provenance (A2) for the lean_string rules.

Everything here is pure inspection of the JSON emitted by lsa-facts; nothing runs the crate.
"""
import json
from functools import lru_cache

# ----------------------------------------------------------------------------- expressions
# Provenance expressions are plain tuples so they hash and compare structurally:
#   ("param", i)                      parameter local _i (1-based like MIR)
#   ("const", ty, value|None, named|None)
#   ("fn", path, args)                function item constant
#   ("call", bb)                      result of the call terminating block bb
#   ("bin", op, a, b) ("un", op, a) ("cast", kind, a, to)
#   ("ref", mut, e) ("rawptr", mut, e)   address of place-expression e
#   ("deref", e) ("field", e, i) ("downcast", e, v) ("index", e)
#   ("agg", adt|kind, variant_name, (fields...))
#   ("discr", e)
#   ("local", l)                      unassigned / uninitialised local (e.g. storage for &mut)
#   ("mem", l)                        local whose value cannot be followed (multi-assigned / mutated)
#   ("phi", (e1, e2, ...))            multi-assigned local with the listed definitions
#   ("loop", l)                       cyclic definition


def strip_refs(e):
    """Look through reborrows, pointer<->reference casts and copies-for-deref:
    &*x, &raw *x, x as *const T (PtrToPtr / Transmute between pointers) all denote x."""
    while True:
        if e[0] in ("ref", "rawptr") and e[2][0] == "deref":
            e = e[2][1]
        elif e[0] == "cast" and e[1] in ("PtrToPtr", "PointerCoercion(MutToConstPointer, Implicit)",
                                         "PointerCoercion(MutToConstPointer, AsCast)"):
            e = e[2]
        elif e[0] == "cast" and e[1].startswith("PointerCoercion(MutToConstPointer"):
            e = e[2]
        else:
            return e


class Body:
    def __init__(self, j, facts):
        self.j = j
        self.facts = facts
        self.path = j["path"]
        self.blocks = j["blocks"]
        self.locals = j["locals"]
        self.arg_count = j["arg_count"]
        self.file = j["file"]
        self.n = len(self.blocks)
        self._succ = None
        self._defs = None
        self._partial = None
        self._mutborrowed = None
        self._origin_memo = {}
        self._dom = None
        self._const_sw = None

    # -- basic accessors
    def term(self, bb):
        return self.blocks[bb]["term"]

    def line(self, bb, si=None):
        if si is None:
            return self.blocks[bb]["term"].get("line", 0)
        return self.blocks[bb]["stmts"][si].get("line", 0)

    def local_ty(self, l):
        return self.locals[l]["ty"]

    def local_name(self, l):
        return self.locals[l].get("name")

    # -- CFG
    def succ(self, bb, unwind=True):
        """list of (target, label). label: 'goto' | ('sw', value|'otherwise') | 'ret' (call return)
        | 'unwind' | 'drop' | 'assert'"""
        t = self.blocks[bb]["term"]
        k = t["k"]
        out = []
        if k == "goto":
            out.append((t["target"], "goto"))
        elif k == "switch":
            only = self._const_sw.get(bb, False) if self._const_sw is not None else False
            if only is False:
                if self._const_sw is None:
                    self._const_sw = {}
                only = self._const_sw[bb] = const_switch_target(self, bb)
            for v, b in t["arms"]:
                if only is None or b == only:
                    out.append((b, ("sw", v)))
            if only is None or t["otherwise"] == only:
                out.append((t["otherwise"], ("sw", "otherwise")))
        elif k == "call":
            if t["target"] is not None:
                out.append((t["target"], "ret"))
            if unwind and isinstance(t["unwind"], int):
                out.append((t["unwind"], "unwind"))
        elif k in ("drop", "assert"):
            out.append((t["target"], k))
            if unwind and isinstance(t["unwind"], int):
                out.append((t["unwind"], "unwind"))
        return out

    def preds(self):
        p = {i: [] for i in range(self.n)}
        for i in range(self.n):
            for s, _ in self.succ(i):
                p[s].append(i)
        return p

    def reachable(self, start=0, unwind=True, stop=None):
        seen = {start}
        st = [start]
        while st:
            b = st.pop()
            if stop and stop(b):
                continue
            for s, _ in self.succ(b, unwind):
                if s not in seen:
                    seen.add(s)
                    st.append(s)
        return seen

    def dominators(self):
        """dom[b] = set of blocks dominating b (normal + unwind edges)."""
        if self._dom is not None:
            return self._dom
        reach = self.reachable(0)
        preds = self.preds()
        dom = {b: set(reach) for b in reach}
        dom[0] = {0}
        changed = True
        order = sorted(reach)
        while changed:
            changed = False
            for b in order:
                if b == 0:
                    continue
                ps = [p for p in preds[b] if p in reach]
                new = set.intersection(*[dom[p] for p in ps]) if ps else set()
                new = new | {b}
                if new != dom[b]:
                    dom[b] = new
                    changed = True
        self._dom = dom
        return dom

    def dominates(self, a, b):
        d = self.dominators()
        return b in d and a in d[b]

    def debug_only_blocks(self):
        """Blocks that execute only inside a `debug_assert*!` / `if cfg!(debug_assertions)` region:
        reachable from the true arm of a debug-only switch but not from its false arm."""
        if getattr(self, "_dbg", None) is not None:
            return self._dbg
        out = set()
        for bb in range(self.n):
            if is_debug_only_switch(self, bb):
                t = self.term(bb)
                false_t = None
                for v, b in t["arms"]:
                    if v == 0:
                        false_t = b
                true_t = t["otherwise"] if false_t is not None else None
                if false_t is None or true_t is None:
                    continue
                if true_t == false_t:
                    continue
                # the region that runs only under debug assertions = blocks dominated by the true
                # arm's target (dominance, not reachability: inside a loop the false arm reaches
                # the same blocks again through the back edge)
                if [p for p in self.preds()[true_t]] != [bb]:
                    continue
                out |= {b for b in range(self.n) if self.dominates(true_t, b)}
        self._dbg = out
        return out

    # -- definitions
    def _scan(self):
        defs = {}      # local -> list of (bb, si|'term', rvalue-or-call)
        partial = {}   # local -> list of (bb, si, proj)
        mutb = set()
        for bi, blk in enumerate(self.blocks):
            for si, s in enumerate(blk["stmts"]):
                if s["k"] == "assign":
                    lhs = s["lhs"]
                    if not lhs["p"]:
                        defs.setdefault(lhs["l"], []).append((bi, si, s["rv"]))
                    elif "deref" not in lhs["p"]:
                        # a store through a pointer held in the local does not change the local
                        partial.setdefault(lhs["l"], []).append((bi, si, lhs["p"]))
                    rv = s["rv"]
                    if rv["k"] in ("ref", "rawptr") and rv.get("mut"):
                        pl = rv["pl"]
                        if "deref" not in pl["p"]:
                            mutb.add(pl["l"])
                elif s["k"] == "set_discr":
                    partial.setdefault(s["lhs"]["l"], []).append((bi, si, s["lhs"]["p"]))
            t = blk["term"]
            if t["k"] == "call":
                d = t["dest"]
                if not d["p"]:
                    defs.setdefault(d["l"], []).append((bi, "term", t))
                elif "deref" not in d["p"]:
                    partial.setdefault(d["l"], []).append((bi, "term", d["p"]))
        self._defs, self._partial, self._mutborrowed = defs, partial, mutb
        # arms cut off by a compile-time constant (`if IS_64_BIT { .. } else { .. }`, cfg!(feature)):
        # what they define does not exist in this configuration
        live = self.reachable(0)
        if len(live) < self.n and any(b not in live for l in defs.values() for (b, _, _) in l):
            self._defs = {l: [d for d in ds if d[0] in live] for l, ds in defs.items()}
            self._defs = {l: ds for l, ds in self._defs.items() if ds}
            self._partial = {l: [d for d in ds if d[0] in live] for l, ds in partial.items()}
            self._partial = {l: ds for l, ds in self._partial.items() if ds}
            self._origin_memo = {}

    @property
    def defs(self):
        if self._defs is None:
            self._scan()
        return self._defs

    @property
    def partial(self):
        if self._partial is None:
            self._scan()
        return self._partial

    @property
    def mutborrowed(self):
        if self._mutborrowed is None:
            self._scan()
        return self._mutborrowed

    # -- provenance
    def origin_local(self, l, stack=()):
        if l in self._origin_memo:
            return self._origin_memo[l]
        if 1 <= l <= self.arg_count:
            # parameters may be reassigned in principle; ignore unless there is a def
            if l not in self.defs:
                return ("param", l)
        if l in stack:
            return ("loop", l)
        ds = self.defs.get(l, [])
        if not ds:
            r = ("local", l)
        elif len(ds) == 1:
            r = self._origin_def(ds[0], stack + (l,))
        else:
            r = ("phi", tuple(self._origin_def(d, stack + (l,)) for d in ds))
        if not stack:
            self._origin_memo[l] = r
        return r

    def _origin_def(self, d, stack):
        bb, si, x = d
        if si == "term":
            return ("call", bb)
        return self.origin_rvalue(x, stack)

    def origin_operand(self, o, stack=()):
        if "cp" in o:
            return self.origin_place(o["cp"], stack)
        if "mv" in o:
            return self.origin_place(o["mv"], stack)
        if "rtc" in o:
            return ("const", "bool", None, "rtc:" + o["rtc"])
        c = o["c"]
        if "fn" in c:
            return ("fn", c["fn"], tuple(c.get("fn_args", [])), c.get("fn_key"))
        if "closure" in c:
            return ("fn", c["closure"], (), c["closure"])
        v = c.get("signed", c.get("scalar"))
        if v is None and c.get("deref_bytes") and c.get("deref_field_offsets") and c["ty"].startswith("&"):
            # a promoted `&Struct` constant (`&Layout::new::<T>()`): the pointee's bytes
            return ("const", c["ty"][1:].strip(), v, c.get("named"), c["deref_bytes"], tuple(c["deref_field_offsets"]))
        if v is None and c.get("bytes") and not c.get("has_ptrs"):
            # a small by-value constant of a struct type (core::alloc::Layout ...): keep its bytes
            return ("const", c["ty"], v, c.get("named"), c["bytes"], tuple(c.get("field_offsets", ())))
        return ("const", c["ty"], v, c.get("named"))

    def origin_place(self, p, stack=()):
        l = p["l"]
        proj = p["p"]
        # field-sensitive read of an aggregate-initialised local
        if proj and isinstance(proj[0], dict) and "f" in proj[0]:
            ds = self.defs.get(l, [])
            if len(ds) == 1 and ds[0][1] != "term" and ds[0][2]["k"] == "aggregate" and ds[0][2]["agg"] in ("adt", "tuple", "closure"):
                fi = proj[0]["f"]
                clobbered = any(pp and isinstance(pp[0], dict) and pp[0].get("f") == fi for (_, _, pp) in self.partial.get(l, []))
                if not clobbered and l not in stack:
                    fields = ds[0][2]["fields"]
                    if fi < len(fields):
                        e = self.origin_operand(fields[fi], stack + (l,))
                        return self._apply_proj(e, proj[1:], stack)
        if l in self.partial or (l in self.mutborrowed and len(self.defs.get(l, [])) >= 1 and proj == []):
            # value may have been changed through a projection / a &mut: keep the initial
            # definition reachable for rules that want it, but mark it as memory
            e = ("mem", l)
        else:
            e = self.origin_local(l, stack)
        return self._apply_proj(e, proj, stack)

    def _apply_proj(self, e, proj, stack):
        for el in proj:
            if el == "deref":
                e = ("deref", e)
            elif "f" in el:
                e = ("field", e, el["f"], el.get("ty"))
            elif "downcast" in el:
                e = ("downcast", e, el["downcast"])
            elif "idx" in el:
                e = ("index", e, self.origin_local(el["idx"], stack))
            elif "cidx" in el:
                e = ("index", e, ("const", "usize", el["cidx"], None))
            else:
                e = ("proj", e, json.dumps(el, sort_keys=True))
        return e

    def origin_rvalue(self, rv, stack=()):
        k = rv["k"]
        if k == "use":
            return self.origin_operand(rv["a"], stack)
        if k == "ref":
            return ("ref", rv["mut"], self.origin_place(rv["pl"], stack))
        if k == "rawptr":
            return ("rawptr", rv["mut"], self.origin_place(rv["pl"], stack))
        if k == "cast":
            return ("cast", rv["kind"], self.origin_operand(rv["a"], stack), rv["to"], rv["from"])
        if k == "bin":
            return ("bin", rv["op"], self.origin_operand(rv["a"], stack), self.origin_operand(rv["b"], stack))
        if k == "un":
            return ("un", rv["op"], self.origin_operand(rv["a"], stack))
        if k == "discriminant":
            return ("discr", self.origin_place(rv["pl"], stack))
        if k == "aggregate":
            head = rv.get("adt") or rv.get("closure") or rv["agg"]
            return ("agg", head, rv.get("variant_name"), tuple(self.origin_operand(f, stack) for f in rv["fields"]))
        if k == "repeat":
            return ("repeat", self.origin_operand(rv["a"], stack), rv["n"])
        return ("other", json.dumps(rv, sort_keys=True)[:80])

    # -- call helpers
    def call_at(self, bb):
        t = self.blocks[bb]["term"]
        return t if t["k"] == "call" else None

    def calls(self):
        for bi, blk in enumerate(self.blocks):
            t = blk["term"]
            if t["k"] == "call":
                yield bi, t

    def call_args(self, bb):
        t = self.blocks[bb]["term"]
        return [self.origin_operand(a) for a in t["args"]]


def pointee(ty):
    """the type behind any number of &, *const/*mut and NonNull wrappers"""
    ty = ty.strip()
    while True:
        if ty.startswith("&"):
            ty = ty[1:].strip()
            if ty.startswith("'"):
                ty = ty.split(" ", 1)[1] if " " in ty else ty
            if ty.startswith("mut "):
                ty = ty[4:]
        elif ty.startswith("*const ") or ty.startswith("*mut "):
            ty = ty.split(" ", 1)[1]
        elif ty.startswith("core::ptr::non_null::NonNull<") and ty.endswith(">"):
            ty = ty[len("core::ptr::non_null::NonNull<"):-1]
        else:
            return ty.strip()


def callee_name(t):
    """Best name for the function actually invoked by call terminator t."""
    if t.get("resolved") and t.get("inst_def"):
        return t["inst_def"]
    return t.get("callee") or "<indirect>"


def callee_key(t):
    return t.get("local_key")


_INHERENT_IMPL = __import__("re").compile(r"(?:[A-Za-z_][A-Za-z_0-9]*::)+<impl ((?:[A-Za-z_][A-Za-z_0-9]*::)*[A-Za-z_][A-Za-z_0-9]*)>::")


_FOREIGN_ROOTS = ("core", "alloc", "std", "serde", "serde_core", "arbitrary", "castaway", "itoa", "ryu")


_TRAIT_IMPL_HEAD = __import__("re").compile(r"((?:[A-Za-z_][A-Za-z_0-9]*::)+)<impl ")


def _normalise_trait_impls(txt):
    """`convert::<impl From<&str> for LeanString>::from` (a trait impl written in a module of the crate)
    is the same function as `<LeanString as From<&str>>::from` (the same impl written at the root):
    name it the second way, so that moving impls into modules renames nothing"""
    out, pos = [], 0
    for m in _TRAIT_IMPL_HEAD.finditer(txt):
        if m.start() < pos:
            continue
        if m.group(1).split("::", 1)[0] in _FOREIGN_ROOTS:
            continue
        # the character before must not be part of a longer path
        if m.start() > 0 and (txt[m.start() - 1].isalnum() or txt[m.start() - 1] in "_:"):
            continue
        i, depth, n = m.end(), 1, len(txt)
        split = None
        while i < n and depth > 0:
            c = txt[i]
            if c == "<":
                depth += 1
            elif c == ">" and txt[i - 1] != "-":
                depth -= 1
                if depth == 0:
                    break
            elif c == "\"" or c == "\n":
                break
            elif depth == 1 and txt.startswith(" for ", i) and split is None:
                split = i
            i += 1
        if depth != 0 or split is None:
            continue      # an inherent impl (`<impl Type>`), or not an impl header: left alone
        trait, ty = txt[m.end():split], txt[split + 5:i]
        out.append(txt[pos:m.start()])
        out.append("<%s as %s>" % (ty, trait))
        pos = i + 1
    out.append(txt[pos:])
    return "".join(out)


def _load_sigs():
    global _SIGS, _ANCHOR_NAMES
    if _SIGS is None:
        import os
        d = os.path.dirname(os.path.dirname(os.path.abspath(__file__)))
        try:
            _SIGS = json.load(open(os.path.join(d, "anchor_sigs.json")))
            _ANCHOR_NAMES = set(json.load(open(os.path.join(d, "anchors.json"))))
        except OSError:
            _SIGS, _ANCHOR_NAMES = {}, set()
    return _SIGS, _ANCHOR_NAMES


_SIGS = None
_ANCHOR_NAMES = None


def _needs_resolution(txt):
    """cheap pre-test: is any reference item absent from the facts?"""
    sigs, _ = _load_sigs()
    for k in sigs:
        if k.startswith("@"):
            for p in sigs[k]:
                if ('"path": "%s"' % p) not in txt:
                    return True
        elif not sigs[k]["exported"] and ('"path": "%s"' % k) not in txt:
            return True
    return False


def _unique_best(cands):
    if not cands:
        return None
    cands.sort(reverse=True)
    if len(cands) == 1:
        return cands[0][1]
    if cands[0][0] > cands[1][0] and cands[0][0] >= 0.3:
        return cands[0][1]
    return None


def _split(p):
    return (p.rsplit("::", 1) + [""])[:2] if "::" in p else ("", p)


def _adt_shape(a, own):
    return [a["kind"], [[f["ty"].replace(own, "Self") for f in v["fields"]] for v in a["variants"]]]


def _adt_aliases(j, sigs):
    ref = sigs.get("@adts", {})
    have = {a["path"]: a for a in j["adts"]}
    missing = [p for p in ref if p not in have]
    new = [p for p in have if p not in ref]
    out = {}
    for m in sorted(missing):
        cands = []
        for p in new:
            a = have[p]
            if p in out or (a.get("vis") == "pub") != ref[m]["pub"] or _adt_shape(a, p) != ref[m]["shape"]:
                continue
            # `pub` items (possibly re-exported API) can move but not change their name
            if _split(p)[1] != _split(m)[1] and (ref[m]["pub"] or _split(p)[0] != _split(m)[0]):
                continue
            vn = [v["name"] for v in a["variants"]]
            same = 1.0 if (a["kind"] != "enum" or vn == ref[m]["variants"]) else 0.0
            cands.append((same, p))
        b = _unique_best(cands)
        if b:
            out[b] = m
    return out


def _const_aliases(j, sigs):
    ref = sigs.get("@consts", {})
    have = {c["path"]: c for c in j["consts"]}
    val = lambda c: [c.get("ty"), c.get("scalar"), c.get("deref_bytes"), c.get("bytes")]
    missing = [p for p in ref if p not in have]
    new = [p for p in have if p not in ref and not p.endswith("_")]
    out = {}
    for m in sorted(missing):
        want = ref[m]["val"].get(str(j["config"]["ptr_bits"]))
        cands = [(1.0, p) for p in new if p not in out and want is not None and val(have[p]) == want and (_split(p)[0] == _split(m)[0] or _split(p)[1] == _split(m)[1])]
        b = _unique_best(cands)
        if b:
            out[b] = m
    return out


def _fn_aliases(j, sigs, anchor_names):
    have = {b["path"] for b in j["bodies"]}
    fns = {f["path"]: f for f in j["fns"]}
    kinds = {b["path"]: b["kind"] for b in j["bodies"]}
    missing = [a for a in sigs if not a.startswith("@") and a not in have and not sigs[a]["exported"]]
    new = [p for p in have if p not in anchor_names and kinds.get(p) != "closure" and p in fns]
    if not missing or not new:
        return {}
    callees = {}
    for b in j["bodies"]:
        if b["path"] in new:
            callees[b["path"]] = {callee_name(blk["term"]) for blk in b["blocks"] if blk["term"]["k"] == "call"}
    out = {}
    for a in sorted(missing):
        sg = sigs[a]
        cands = []
        for p in new:
            f = fns[p]
            if p in out or f.get("inputs", []) != sg["inputs"] or f.get("output", "") != sg["output"] or f.get("safety") != sg["safety"] or f.get("exported"):
                continue
            if _split(p)[0] != sg["container"] and _split(p)[1] != sg["name"]:
                continue
            want, got = set(sg["callees"]), callees.get(p, set())
            cands.append((len(want & got) / float(len(want | got) or 1), p))
        b = _unique_best(cands) if len(cands) != 1 else cands[0][1]
        if not b and len(sg["callees"]) >= 2:
            # renamed AND moved (a free function turned into an associated function of another type):
            # the one new function with this signature that calls what the reference one called
            far = []
            for p in new:
                f = fns[p]
                if p in out or f.get("inputs", []) != sg["inputs"] or f.get("output", "") != sg["output"] or f.get("safety") != sg["safety"] or f.get("exported"):
                    continue
                want, got = set(sg["callees"]), callees.get(p, set())
                sim = len(want & got) / float(len(want | got) or 1)
                if sim >= 0.75:
                    far.append((sim, p))
            far.sort(reverse=True)
            if len(far) == 1 or (len(far) > 1 and far[0][0] > far[1][0]):
                b = far[0][1]
        if not b:
            # a method of a renamed private trait: `<u8 as M::DecimalWidth>::decimal_width` for
            # `<u8 as M::DigitCount>::digit_count` - the one new trait method on the same Self type with
            # this signature
            import re as _re2
            ma = _re2.match(r"^<(.*) as ([A-Za-z_0-9:]+)(<.*>)?>::(\w+)$", a)
            if ma:
                tm = []
                for p in new:
                    mp = _re2.match(r"^<(.*) as ([A-Za-z_0-9:]+)(<.*>)?>::(\w+)$", p)
                    f = fns[p]
                    if mp and p not in out and mp.group(1) == ma.group(1) and mp.group(2).rsplit("::", 1)[0] == ma.group(2).rsplit("::", 1)[0] and \
                            f.get("inputs", []) == sg["inputs"] and f.get("output", "") == sg["output"] and f.get("safety") == sg["safety"]:
                        tm.append(p)
                if len(tm) == 1:
                    b = tm[0]
        if b:
            out[b] = a
    return out


def resolve_renames(txt):
    """A private function, type or constant of the reference tree that was merely renamed or moved to
    another module keeps its role.  An item of the reference tree that is missing is matched with the
    one new item of the same kind that has its shape - functions: parameter and return types and
    safety; types: kind and field types; constants: type and value - and sits in the same container
    or carries the same name (ties between functions are broken by the overlap of what they call).
    The new name is then replaced by the reference name throughout the facts, so that every rule
    keeps talking about the same thing.  -> (facts text, {new path: reference path})"""
    sigs, anchor_names = _load_sigs()
    done = {}
    if not sigs:
        return txt, done
    import re as _re
    grew = False
    for _ in range(6):
        j = json.loads(txt)
        m = _adt_aliases(j, sigs) or _const_aliases(j, sigs) or _fn_aliases(j, sigs, anchor_names)
        m = {k: v for k, v in m.items() if k not in done}
        if not m and _ > 0 and not grew:
            break
        grew = False
        for new, old in sorted(m.items(), key=lambda kv: -len(kv[0])):
            txt = _re.sub(r"(?<![A-Za-z0-9_:])" + _re.escape(new) + r"(?![A-Za-z0-9_])", lambda mm: old, txt)
        done.update(m)
        # a module that was renamed: two or more of its items were matched with items of one and the
        # same reference module, none with another, and the new module name does not exist on the
        # reference tree - then everything else in it moves along (the next round matches its types
        # and functions container by container)
        votes = {}
        for new, old in done.items():
            if new.startswith("<") or old.startswith("<") or "::" not in new or "::" not in old:
                continue
            nm, om = new.rsplit("::", 1)[0], old.rsplit("::", 1)[0]
            if nm != om and new.rsplit("::", 1)[1] == old.rsplit("::", 1)[1]:
                votes.setdefault(nm, {}).setdefault(om, 0)
                votes[nm][om] += 1
        # a nested item that was matched names its parent: `<R as UnwrapDisplay>::unwrap_display::panic_display`
        # = `<R as UnwrapWithMsg>::unwrap_with_msg::do_panic_with_msg` makes the enclosing functions the same
        have = {f["path"] for f in json.loads(txt)["fns"]}
        for new, old in list(done.items()):
            if "::" not in new or "::" not in old or new.startswith("mod:"):
                continue
            pn, po = new.rsplit("::", 1)[0], old.rsplit("::", 1)[0]
            if pn != po and pn in have and pn not in anchor_names and po in anchor_names and po not in have and pn not in done:
                txt = _re.sub(r"(?<![A-Za-z0-9_:])" + _re.escape(pn) + r"(?![A-Za-z0-9_])", lambda mm: po, txt)
                done[pn] = po
        # the same two inferences from matched trait-impl methods: `<u8 as repr::into_repr::DigitCount>::f`
        # = `<u8 as repr::num_to_repr::DigitCount>::f` votes for the module, `<u8 as M::IntoRepr>::f` =
        # `<u8 as M::NumToRepr>::f` (several times, consistently) for the trait's new name
        tvotes = {}
        for new, old in done.items():
            mn, mo = _re.match(r"^<.* as ([A-Za-z_0-9:]+)(?:<.*>)?>::", new), _re.match(r"^<.* as ([A-Za-z_0-9:]+)(?:<.*>)?>::", old)
            if not mn or not mo or mn.group(1) == mo.group(1) or "::" not in mn.group(1) or "::" not in mo.group(1):
                continue
            (nmod, nleaf), (omod, oleaf) = mn.group(1).rsplit("::", 1), mo.group(1).rsplit("::", 1)
            nmod = done.get("mod:" + nmod, "mod:" + nmod)[4:]      # (a module already recognised as renamed)
            if nleaf == oleaf and nmod != omod:
                votes.setdefault(nmod, {}).setdefault(omod, 0)
                votes[nmod][omod] += 1
            elif nmod == omod and nleaf != oleaf:
                tvotes.setdefault(nmod + "::" + nleaf, {}).setdefault(mo.group(1), 0)
                tvotes[nmod + "::" + nleaf][mo.group(1)] += 1
        for tn, tally in tvotes.items():
            if len(tally) == 1 and list(tally.values())[0] >= 2 and ("trait:" + tn) not in done:
                to = list(tally)[0]
                txt = _re.sub(r"(?<![A-Za-z0-9_:])" + _re.escape(tn) + r"(?![A-Za-z0-9_])", lambda mm: to, txt)
                done["trait:" + tn] = "trait:" + to
                grew = True
        ref_mods = {a.rsplit("::", 1)[0] for a in anchor_names if "::" in a and not a.startswith("<")}
        for nm, tally in votes.items():
            if len(tally) == 1 and list(tally.values())[0] >= 2 and nm not in ref_mods and ("mod:" + nm) not in done:
                om = list(tally)[0]
                txt = _re.sub(r"(?<![A-Za-z0-9_:])" + _re.escape(nm) + r"::", lambda mm: om + "::", txt)
                done["mod:" + nm] = "mod:" + om
                grew = True
    return txt, {k: v for k, v in done.items()}


class Facts:
    def __init__(self, path, resolve_renames=True):
        with open(path) as f:
            txt = f.read()
        # An inherent impl written in another module than its type (`impl Repr { .. }` inside
        # repr/buffer_access.rs) is printed `repr::buffer_access::<impl repr::Repr>::f` by the
        # compiler; the function it defines is the same `Repr::f`.  Name it by its type, so that
        # moving an impl block between modules does not rename anything.
        txt = _INHERENT_IMPL.sub(lambda m: m.group(0) if m.group(0).split("::", 1)[0] in _FOREIGN_ROOTS else m.group(1) + "::", txt)
        txt = _normalise_trait_impls(txt)
        self.renamed = {}
        if resolve_renames and _needs_resolution(txt):
            txt, self.renamed = globals()["resolve_renames"](txt)
        self.j = json.loads(txt)
        self.path = path
        self.config = self.j["config"]
        self.bodies = {b["path"]: Body(b, self) for b in self.j["bodies"]}
        self.fns = {f["path"]: f for f in self.j["fns"]}
        self.consts = {c["path"]: c for c in self.j["consts"]}
        self.adts = {a["path"]: a for a in self.j["adts"]}
        self.layouts = {l["ty"]: l for l in self.j["layouts"]}
        self.impls = self.j["impls"]
        self.ptr_bits = self.config["ptr_bits"]
        self.ptr_bytes = self.ptr_bits // 8
        self.endian = self.config["endian"]
        feats = [f for f in self.config["features"] if f != "default"]
        self.name = "%s/%s/%s" % (self.config["target"].split("-")[0],
                                  "+".join(sorted(feats)) or "nofeat",
                                  "debug" if self.config["debug_assertions"] else "nodebug")

    def body(self, path):
        return self.bodies.get(path)

    def const_scalar(self, path):
        c = self.consts.get(path)
        return None if c is None else c.get("scalar")

    def enum_discr(self, adt, variant):
        a = self.adts.get(adt)
        if not a:
            return None
        for v in a["variants"]:
            if v["name"] == variant:
                return v.get("discr")
        return None

    def find_bodies(self, pred):
        return [b for b in self.bodies.values() if pred(b)]

    def impls_of(self, trait_substr=None, self_ty=None):
        out = []
        for i in self.impls:
            if trait_substr is not None and trait_substr != i["trait"]:
                continue
            if self_ty is not None and i["self"] != self_ty:
                continue
            out.append(i)
        return out


def expn_has(x, *names):
    """x: statement or terminator; true if its macro backtrace mentions one of names."""
    for e in x.get("expn", []):
        for n in names:
            if n in e:
                return True
    return False


def is_debug_only_switch(body, bb):
    """SwitchInt on a literal `const true/false` that comes from cfg!(debug_assertions) /
    debug_assert*!: both edges are treated as feasible (A3)."""
    t = body.term(bb)
    if t["k"] != "switch":
        return False
    d = t["discr"]
    if "c" in d and "scalar" in d["c"] and d["c"]["ty"] == "bool":
        return _debug_cfg(t)
    if "rtc" in d:
        return True
    # `_n = const true; switchInt(move _n)`
    e = body.origin_operand(d)
    if e[0] == "const" and e[1] == "bool":
        return _debug_cfg(t)
    return False


def _debug_cfg(t):
    """the constant comes from debug_assert*! or cfg!(debug_assertions) - not from another
    configuration predicate such as cfg!(feature = "std"), whose arms are ordinary code"""
    if expn_has(t, "debug_assert"):
        return True
    if expn_has(t, "cfg"):
        src = t.get("cfgsrc")
        return src is None or any(x == "cfg!(debug_assertions)" for x in src)
    return False


def const_switch_target(body, bb):
    """a switch on a compile-time constant that is not a debug-assertion test (cfg!(feature = ..),
    cfg!(target_..), a const item): only one arm exists in this configuration -> its target"""
    t = body.term(bb)
    if t["k"] != "switch" or is_debug_only_switch(body, bb):
        return None
    d = t["discr"]
    v = None
    if "c" in d and "scalar" in d["c"]:
        v = d["c"]["scalar"]
    elif "mv" in d or "cp" in d:
        pl = d.get("mv") or d.get("cp")
        if not pl["p"]:
            # `_n = const X; switchInt(move _n)` in the same block
            for s in reversed(body.blocks[bb]["stmts"]):
                if s["k"] == "assign" and s["lhs"]["l"] == pl["l"] and not s["lhs"]["p"]:
                    rv = s["rv"]
                    if rv["k"] == "use" and "c" in rv["a"] and "scalar" in rv["a"]["c"]:
                        v = rv["a"]["c"]["scalar"]
                    break
    if v is None:
        # a comparison of compile-time quantities (`size_of::<T>() <= 4` in a macro-generated impl)
        try:
            v = static_int(body, body.origin_operand(d))
        except RecursionError:
            v = None
        if isinstance(v, bool):
            v = int(v)
    if v is None:
        return None
    for av, ab in t["arms"]:
        if av == v:
            return ab
    return t["otherwise"]


_PRIM_SIZE = {"u8": 1, "i8": 1, "bool": 1, "u16": 2, "i16": 2, "u32": 4, "i32": 4, "char": 4, "f32": 4, "u64": 8, "i64": 8, "f64": 8, "u128": 16, "i128": 16}


def static_int(body, e, depth=0):
    """value of an expression built only from literals and size_of/align_of of closed types"""
    e = strip_refs(e)
    if depth > 8:
        return None
    k = e[0]
    if k == "const":
        return e[2] if isinstance(e[2], int) else None
    if k == "cast" and e[1] == "IntToInt":
        return static_int(body, e[2], depth + 1)
    if k == "call":
        t = body.term(e[1])
        n = callee_name(t)
        ga = t.get("generic_args", [])
        if n in ("core::mem::size_of_val", "core::mem::align_of_val") and len(ga) == 1 and len(t["args"]) == 1 and (ga[0] in _PRIM_SIZE or ga[0] in ("usize", "isize")):
            n = n[:-4]      # of a sized primitive: the size of its type
        if n in ("core::mem::size_of", "core::mem::align_of") and len(ga) == 1 and (not t["args"] or callee_name(t) != n):
            ty = ga[0]
            if ty in ("usize", "isize"):
                return body.facts.ptr_bytes
            if ty in _PRIM_SIZE:
                sz = _PRIM_SIZE[ty]
                if n.endswith("align_of"):
                    # u64/u128/f64 alignment is target dependent: not decided here
                    return sz if sz <= 4 else None
                return sz
            lay = body.facts.layouts.get(ty)
            if lay:
                return lay["size"] if n.endswith("size_of") else lay["align"]
        return None
    if k == "bin":
        a, b = static_int(body, e[2], depth + 1), static_int(body, e[3], depth + 1)
        if a is None or b is None:
            return None
        import operator as op
        f = {"Le": op.le, "Lt": op.lt, "Ge": op.ge, "Gt": op.gt, "Eq": op.eq, "Ne": op.ne, "Add": op.add, "Sub": op.sub, "Mul": op.mul}.get(e[1])
        return f(a, b) if f else None
    return None
