"""C14 / C15 rules: digit-count tables (exhaustive by interval partition), the castaway dispatch
table of try_to_lean_string, into_repr idioms, bool/char constants, error mapping."""
import re
from facts import callee_name, strip_refs
from guards import describe, eval_int, guards_at, cmp_facts

INT_RANGE = {
    "u8": (0, 2**8 - 1), "u16": (0, 2**16 - 1), "u32": (0, 2**32 - 1), "u64": (0, 2**64 - 1), "u128": (0, 2**128 - 1),
    "i8": (-2**7, 2**7 - 1), "i16": (-2**15, 2**15 - 1), "i32": (-2**31, 2**31 - 1), "i64": (-2**63, 2**63 - 1), "i128": (-2**127, 2**127 - 1),
}


def int_range(ty, ptr_bits):
    if ty == "usize":
        return (0, 2**ptr_bits - 1)
    if ty == "isize":
        return (-2**(ptr_bits - 1), 2**(ptr_bits - 1) - 1)
    return INT_RANGE.get(ty)


def _const_of(body, o):
    if "c" in o:
        c = o["c"]
        return c.get("signed", c.get("scalar"))
    return None


def partition(body, ty_range):
    """enumerate all paths of a loop-free comparison DAG over parameter _1 with an interval;
    -> (list of (lo, hi, k), list of (lo, hi) reaching `unreachable`, list of problems)"""
    results, dead, problems = [], [], []
    stack = [(0, ty_range[0], ty_range[1], 0)]
    steps = 0
    while stack:
        bb, lo, hi, depth = stack.pop()
        steps += 1
        if steps > 20000 or depth > 400:
            problems.append("path enumeration budget exceeded")
            break
        if lo > hi:
            continue
        blk = body.blocks[bb]
        t = blk["term"]
        # return-place constants in this block
        k = None
        for s in blk["stmts"]:
            if s["k"] == "assign" and s["lhs"]["l"] == 0 and not s["lhs"]["p"]:
                v = _const_of(body, s["rv"]["a"]) if s["rv"]["k"] == "use" else None
                if v is None:
                    problems.append("bb%d assigns a non-constant to the result" % bb)
                k = v
        if k is not None:
            results.append((lo, hi, k))
            continue
        if t["k"] == "goto":
            stack.append((t["target"], lo, hi, depth + 1))
        elif t["k"] == "unreachable":
            dead.append((lo, hi))
        elif t["k"] == "return":
            problems.append("bb%d returns without a constant result" % bb)
        elif t["k"] == "switch":
            # condition defined in this block: _c = Op(a, b) with one side the parameter
            d = t["discr"]
            pl = d.get("mv") or d.get("cp")
            cond = None
            if pl is not None:
                for s in blk["stmts"]:
                    if s["k"] == "assign" and s["lhs"]["l"] == pl["l"] and s["rv"]["k"] == "bin":
                        cond = s["rv"]
            if cond is None:
                problems.append("bb%d: switch on something that is not a comparison of the parameter" % bb)
                continue
            op = cond["op"]
            a, b = cond["a"], cond["b"]
            ca, cb = _const_of(body, a), _const_of(body, b)
            def is_param(o):
                # the parameter itself, `*self` for a by-reference receiver, or a copy of either
                e = strip_refs(body.origin_operand(o))
                return e == ("param", 1) or e == ("deref", ("param", 1))
            pa, pb = is_param(a), is_param(b)
            if ca is not None and pb:
                # const OP x  ==  x OP' const
                op = {"Le": "Ge", "Lt": "Gt", "Ge": "Le", "Gt": "Lt", "Eq": "Eq", "Ne": "Ne"}.get(op)
                c = ca
            elif cb is not None and pa:
                c = cb
            else:
                problems.append("bb%d: comparison does not involve the parameter and a constant" % bb)
                continue
            # true interval / false interval(s)
            if op == "Le":
                tr, fa = [(lo, min(hi, c))], [(max(lo, c + 1), hi)]
            elif op == "Lt":
                tr, fa = [(lo, min(hi, c - 1))], [(max(lo, c), hi)]
            elif op == "Ge":
                tr, fa = [(max(lo, c), hi)], [(lo, min(hi, c - 1))]
            elif op == "Gt":
                tr, fa = [(max(lo, c + 1), hi)], [(lo, min(hi, c))]
            elif op == "Eq":
                tr, fa = [(max(lo, c), min(hi, c))], [(lo, min(hi, c - 1)), (max(lo, c + 1), hi)]
            else:
                problems.append("bb%d: unsupported comparison %s" % (bb, cond["op"]))
                continue
            t_true = t["otherwise"]
            t_false = None
            for v, tb in t["arms"]:
                if v == 0:
                    t_false = tb
                elif v == 1:
                    t_true = tb
            if t_false is None:
                t_false = t["otherwise"]
            for (l, h) in tr:
                stack.append((t_true, l, h, depth + 1))
            for (l, h) in fa:
                stack.append((t_false, l, h, depth + 1))
        else:
            problems.append("bb%d: unexpected terminator %s in a digit table" % (bb, t["k"]))
    return results, dead, problems


def dec_width(x):
    return len(str(x))


def rule_digit_tables(ctx, rule="C14-digits"):
    F = ctx.F
    impls = [i for i in F.impls if i["trait"] == "repr::num_to_repr::DigitCount"]
    ctx.need(rule, "repr::num_to_repr::DigitCount", "impls", len(impls) >= 10, "only %d DigitCount impls found" % len(impls), how="%d DigitCount impls" % len(impls))
    total_vals = 0
    for i in impls:
        ty = i["self"]
        key = i["items"].get("digit_count") or (list(i["items"].values())[0] if len(i["items"]) == 1 else None)      # (the method may have been renamed with its trait)
        body = F.bodies.get(key)
        rng = int_range(ty, F.ptr_bits)
        if body is None or rng is None:
            ctx.ob(rule, key or ty, "table", False, detail="DigitCount impl for %s has no analysable body" % ty)
            continue
        calls = list(body.calls())
        if calls:
            # delegation: usize/isize -> width-matching table
            ok = False
            why = "delegates through %s" % [callee_name(t) for _, t in calls]
            if len(calls) == 1:
                bb, t = calls[0]
                m = re.match(r"^<(\w+) as repr::num_to_repr::DigitCount>::digit_count$", callee_name(t))
                a = strip_refs(body.origin_operand(t["args"][0]))
                while a[0] in ("ref", "rawptr"):
                    a = strip_refs(a[2])
                if a[0] == "mem":
                    ds0 = body.defs.get(a[1], [])
                    if len(ds0) == 1 and ds0[0][1] != "term":
                        a = strip_refs(body.origin_rvalue(ds0[0][2]))
                if m and a[0] == "cast" and a[1] == "IntToInt" and strip_refs(a[2]) in (("param", 1), ("deref", ("param", 1))) and body.term(bb)["dest"]["l"] == 0:
                    tgt = m.group(1)
                    trng = INT_RANGE.get(tgt)
                    ok = trng is not None and trng[0] <= rng[0] and rng[1] <= trng[1]
                    why = "%s delegates to the %s table through a lossless cast" % (ty, tgt) if ok else "%s -> %s cast is lossy on this target (range %s not within %s)" % (ty, tgt, rng, trng)
            ctx.ob(rule, key, "delegation", ok, how=why, detail=why)
            continue
        res, dead, problems = partition(body, rng)
        ctx.ob(rule, key, "shape", not problems, how="loop-free comparison DAG over the parameter", detail="; ".join(problems[:3]))
        ctx.ob(rule, key, "no-fallthrough", not dead, how="no value of %s reaches `unreachable`" % ty,
               detail="values %s of %s reach `unreachable` (undefined behaviour)" % (dead[:2], ty))
        covered = sum(h - l + 1 for l, h, _ in res) + sum(h - l + 1 for l, h in dead)
        ctx.ob(rule, key, "covers-type", covered == rng[1] - rng[0] + 1, how="partition covers all %d values of %s in %d intervals" % (rng[1] - rng[0] + 1, ty, len(res)),
               detail="partition covers %d of %d values" % (covered, rng[1] - rng[0] + 1))
        bad = []
        for (l, h, k) in res:
            parts = [(l, h)] if not (l < 0 <= h) else [(l, -1), (0, h)]
            for (a, b) in parts:
                if dec_width(a) != k or dec_width(b) != k:
                    bad.append("[%d, %d] -> %d but Display widths are %d..%d" % (a, b, k, min(dec_width(a), dec_width(b)), max(dec_width(a), dec_width(b))))
        total_vals += covered
        ctx.ob(rule, key, "table=display-width", not bad, how="every interval's count equals len(to_string()) at both endpoints (width is monotone in |x|): proved for all %d values" % covered,
               detail="digit_count disagrees with Display: " + "; ".join(bad[:3]))
    ctx.notes.append("digit-count tables decided for %d values in total (every value of u8..u64, i8..i64 on this target), by interval partition" % total_vals)
    return total_vals


# ----------------------------------------------------------------------------- dispatch
NUMS = ["i8", "u8", "i16", "u16", "i32", "u32", "i64", "u64", "i128", "u128", "isize", "usize"]
EXPECT = {}
for n in NUMS:
    EXPECT[n] = ("repr::Repr::from_num", n)
    EXPECT["core::num::nonzero::NonZero<%s>" % n] = ("repr::Repr::from_num", "core::num::nonzero::NonZero<%s>" % n)
EXPECT["f32"] = ("repr::Repr::from_num", "f32")
EXPECT["f64"] = ("repr::Repr::from_num", "f64")
EXPECT["bool"] = ("repr::Repr::from_bool", None)
EXPECT["char"] = ("repr::Repr::from_char", None)
EXPECT["alloc::string::String"] = ("alloc::string::String::as_str", None)
EXPECT["LeanString"] = ("<LeanString as core::clone::Clone>::clone", None)

STRING_VIEWS = ("alloc::string::String::as_str", "<alloc::string::String as core::ops::deref::Deref>::deref", "<alloc::string::String as core::convert::AsRef<str>>::as_ref",
                "<alloc::string::String as core::borrow::Borrow<str>>::borrow", "alloc::string::String::as_bytes")
SKIP_PREFIX = ("castaway::", "<core::result::Result<", "core::ops::", "<&")


def dispatch_arms(body):
    """-> list of (target type X, try_cast bb, ok-edge block)"""
    arms = []
    for bb, t in body.calls():
        c = t.get("callee") or ""
        if c.endswith("::try_cast") and "castaway" in c:
            ga = t.get("generic_args", [])
            x = ga[-1] if ga else None
            # the discriminant switch on the result
            nxt = t["target"]
            okb = None
            seen = 0
            while nxt is not None and seen < 4:
                tt = body.term(nxt)
                if tt["k"] == "switch":
                    for v, tb in tt["arms"]:
                        if v == 0:
                            okb = tb
                    break
                nxt = tt.get("target") if tt["k"] == "goto" else None
                seen += 1
            arms.append((x, bb, okb))
    return arms


def first_handler(body, bb):
    """first call on the straight-line path from bb that is not cast/try plumbing"""
    seen = 0
    while bb is not None and seen < 12:
        t = body.term(bb)
        if t["k"] == "call":
            return bb, t
        if t["k"] == "goto":
            bb = t["target"]
        else:
            return None, None
        seen += 1
    return None, None


def rule_dispatch(ctx, rule="DISPATCH", want=None):
    F = ctx.F
    key = "<T as traits::ToLeanString>::try_to_lean_string"
    body = F.bodies.get(key)
    ctx.need(rule, key, "anchor", body is not None, "generic ToLeanString impl not found")
    if body is None:
        return
    arms = dispatch_arms(body)
    seen_types = {}
    for x, bb, okb in arms:
        seen_types[x] = (bb, okb)
    for x, exp in EXPECT.items():
        if want is not None and x not in want:
            continue
        if x not in seen_types:
            ctx.ob(rule, key, "arm:" + x, False, detail="no specialised arm for &%s: the value falls through to the generic fmt::Write path (still correct text, but the property's fast path and its no-allocation clause for short values are gone)" % x)
            continue
        bb, okb = seen_types[x]
        hb, ht = first_handler(body, okb) if okb is not None else (None, None)
        if ht is None:
            ctx.ob(rule, key, "arm:" + x, False, detail="cannot find the handler call of the &%s arm" % x)
            continue
        n = callee_name(ht)
        ok = n == exp[0]
        if x == "alloc::string::String" and n in STRING_VIEWS:
            ok = True      # `&*s`, `s.as_ref()`, `s.borrow()`: the String's text, like `s.as_str()`
        why = "handler %s" % n
        if ok and exp[1] is not None:
            ga = ht.get("generic_args", [])
            ok = ga == [exp[1]]
            why += "::<%s>" % ",".join(ga)
            # argument is the cast value, dereferenced
            a = describe(body, body.origin_operand(ht["args"][0]))
        if ok:
            a = strip_refs(body.origin_operand(ht["args"][0]))
            # must derive from the Ok payload of this very try_cast
            ok = _rooted(body, a, bb)
            if not ok:
                why += " on a value that is not this arm's cast result"
        ctx.ob(rule, key, "arm:" + x, ok, how="&%s -> %s on the cast value" % (x, why), line=ht.get("line", 0),
               detail="&%s arm dispatches to %s (expected %s%s)" % (x, why, exp[0], "::<%s>" % exp[1] if exp[1] else ""))
    extra = [x for x in seen_types if x not in EXPECT]
    for x in extra:
        ctx.ob("unclassified", key, "arm:" + str(x), False, detail="dispatch arm for &%s is not in the table" % x)
    return len(arms)


def _rooted(body, e, call_bb, depth=0):
    e = strip_refs(e)
    if depth > 12:
        return False
    if e == ("call", call_bb):
        return True
    if e[0] in ("field", "downcast", "deref"):
        return _rooted(body, e[1], call_bb, depth + 1)
    if e[0] == "mem":
        for d in body.defs.get(e[1], []):
            x = ("call", d[0]) if d[1] == "term" else body.origin_rvalue(d[2])
            if _rooted(body, x, call_bb, depth + 1):
                return True
    if e[0] == "call":
        t = body.term(e[1])
        if t["args"]:
            return _rooted(body, body.origin_operand(t["args"][0]), call_bb, depth + 1)
    return False


def rule_into_repr(ctx, rule="INTOREPR"):
    """each NumToRepr::into_repr body is one of the accepted idioms"""
    F = ctx.F
    impls = [i for i in F.impls if i["trait"] == "repr::num_to_repr::NumToRepr"]
    ctx.need(rule, "repr::num_to_repr::NumToRepr", "impls", len(impls) >= 26, "only %d NumToRepr impls (expected 26)" % len(impls), how="%d NumToRepr impls" % len(impls))
    lut = F.consts.get("repr::num_to_repr::DEC_DIGITS_LUT")
    want = "".join("%02d" % i for i in range(100)).encode().hex()
    ctx.ob(rule, "repr::num_to_repr::DEC_DIGITS_LUT", "contents", lut is not None and lut.get("deref_bytes") == want, how="LUT = \"00\"..\"99\"", detail="DEC_DIGITS_LUT is not the two-digit table 00..99")
    for i in impls:
        ty = i["self"]
        key = i["items"].get("into_repr")
        b = F.bodies.get(key)
        if b is None:
            ctx.ob(rule, key or ty, "body", False, detail="no body")
            continue
        names = [callee_name(t) for _, t in b.calls()]
        d0 = [describe(b, ("call", bb) if si == "term" else b.origin_rvalue(x)) for (bb, si, x) in b.defs.get(0, [])]
        if ty in ("f32", "f64"):
            ok = len(d0) == 1 and all(re.match(r"^repr::Repr::from_str\(ryu::buffer::Buffer::format\(.*, p1\)\)$", d) for d in d0) and not any("format_finite" in n for n in names) and _no_value_branch(b)
            ctx.ob(rule, key, "idiom:ryu", ok, how="Repr::from_str(ryu::Buffer::new().format(self)) — `format` handles NaN/inf", detail="float into_repr is %s" % d0)
        elif ty in ("u128", "i128"):
            ok = len(d0) == 1 and all(re.match(r"^repr::Repr::from_str\(itoa::Buffer::format\(.*, p1\)\)$", d) for d in d0) and _no_value_branch(b)
            ctx.ob(rule, key, "idiom:itoa", ok, how="Repr::from_str(itoa::Buffer::new().format(self))", detail="128-bit into_repr is %s" % d0)
        elif ty.startswith("core::num::nonzero::NonZero<"):
            inner = ty[len("core::num::nonzero::NonZero<"):-1]
            ok = len(d0) == 1 and all(re.match(r"^<%s as repr::num_to_repr::NumToRepr>::into_repr\(core::num::nonzero::NonZero::<T>::get\(p1\)\)$" % re.escape(inner), d) for d in d0) and _no_value_branch(b)
            ctx.ob(rule, key, "idiom:nonzero", ok, how="self.get().into_repr() of the matching primitive", detail="NonZero<%s> into_repr is %s" % (inner, d0))
        else:
            _unrolled_writer(ctx, rule, key, b, ty)


def _no_value_branch(b):
    """a pure delegation has no branch on the value (a special-cased input is a second algorithm)"""
    return not any(b.term(bb)["k"] == "switch" for bb in range(b.n))


def _writer_bodies(ctx, b):
    """the body plus the private helpers, closures and local-trait methods (not reference functions)
    it reaches: where the digit loop may live after a refactoring"""
    from guards import anchors
    F, cg = ctx.F, ctx.cg
    seen, _, _, _ = cg.reach([b.path], follow=lambda e: e.target is not None and e.target not in anchors(F))
    return [F.bodies[p] for p in sorted(seen) if p in F.bodies]


def _const_of_expr(e):
    e = strip_refs(e)
    while e[0] == "cast":
        e = strip_refs(e[2])
    return e[2] if e[0] == "const" and isinstance(e[2], int) else None


def _unrolled_writer(ctx, rule, key, b, ty):
    F = ctx.F
    rng = int_range(ty, F.ptr_bits)
    # digit_count(self) feeds with_capacity, the initial cursor and set_len
    dc = [bb for bb, t in b.calls() if callee_name(t) == "<%s as repr::num_to_repr::DigitCount>::digit_count" % ty and describe(b, b.origin_operand(t["args"][0])) in ("p1", "&p1")]
    ctx.ob(rule, key, "digit_count(self)", len(dc) == 1, how="one digit_count(self) call", detail="expected exactly one DigitCount::digit_count(self) call, found %d" % len(dc))
    if len(dc) != 1:
        return
    dcd = describe(b, ("call", dc[0]))
    # the writer may live in the body itself or in a private (possibly generic) helper it hands the
    # magnitude and the digit count to: sites are looked at from this body, operands in its terms
    from guards import inlined_sites, anchors
    for st in inlined_sites(b, lambda nm: nm in ("repr::Repr::with_capacity", "repr::Repr::set_len")):
        if st.name == "repr::Repr::with_capacity":
            d = st.desc(0)
            ctx.ob(rule, key, "with_capacity(digits)", d == dcd, how="capacity = digit_count(self)", detail="with_capacity called with %s" % d)
        else:
            d = st.desc(1)
            ctx.ob(rule, key, "set_len(digits)", d == dcd, how="published length = digit_count(self)", detail="set_len called with %s" % d)
    # the buffer the digits are written into has room for them: it comes from
    # with_capacity(digit_count(self)), or is the empty inline buffer when every value of the type
    # fits the inline capacity OF THIS TARGET (two machine words)
    M = F.const_scalar("repr::MAX_INLINE_SIZE")
    maxdig = max(len(str(rng[0])), len(str(rng[1])))
    recv = set()
    for st in inlined_sites(b, lambda nm: nm in ("repr::Repr::as_slice_mut", "repr::Repr::set_len")):
        fb = st.body
        e = strip_refs(fb.origin_operand(st.t["args"][0]))
        while e[0] in ("ref", "rawptr", "deref"):
            e = strip_refs(e[2] if e[0] != "deref" else e[1])
        if e[0] in ("mem", "local"):
            recv.add((fb.path, e[1]))
            live = fb.reachable(0)
            for (dbb, si, x) in fb.defs.get(e[1], []):
                if dbb not in live:
                    continue   # an arm cut off by a compile-time condition (size_of::<T>() <= 4)
                d = describe(fb, ("call", dbb) if si == "term" else fb.origin_rvalue(x), 0, st.subst[-1])
                ok = d == "ok(repr::Repr::with_capacity(%s))" % dcd or (d == "repr::Repr::new()" and M is not None and maxdig <= M)
                ctx.ob(rule, key, "buffer-has-room", ok, how="buffer = with_capacity(digit_count(self))" if d != "repr::Repr::new()" else "empty inline buffer: %d digits <= %d inline bytes" % (maxdig, M),
                       detail="the digits of %s (up to %d bytes) are written into %s%s" % (ty, maxdig, d, (": the inline buffer holds %s bytes on this target" % M) if d == "repr::Repr::new()" else ""))
    ctx.ob(rule, key, "writes-into-own-buffer", len(recv) == 1, how="one local Repr receives the digits", detail="digits are written into %d different buffers" % len(recv))
    # the widening cast: IntToInt from the type to an unsigned type at least as wide
    casts = []
    for blk in b.blocks:
        for s in blk["stmts"]:
            if s["k"] == "assign" and s["rv"]["k"] == "cast" and s["rv"]["kind"] == "IntToInt" and s["rv"]["from"] == ty and strip_refs(b.origin_operand(s["rv"]["a"])) == ("param", 1):
                casts.append(s["rv"]["to"])
    bits = {"u8": 8, "u16": 16, "u32": 32, "u64": 64, "u128": 128, "usize": F.ptr_bits}
    own = (rng[1] - rng[0] + 1).bit_length() - 1
    okc = all(c in bits and bits[c] >= own for c in casts) and (bool(casts) or ty in bits)  # an unsigned type already as wide as the work type needs no cast
    ctx.ob(rule, key, "lossless-cast", okc, how="`self as %s` (>= %d bits)" % (sorted(set(casts)), own), detail="integer is cast to %s before formatting (narrower than %d bits loses digits)" % (sorted(set(casts)), own))
    # later narrowing casts of the magnitude (`n as usize` once the wide loop is done): the value has
    # to be known to fit - an upper-bound guard on the same variable dominates the cast
    from guards import described_guards
    def pure_cast(hb):
        """`fn to_usize(self) -> usize { self as usize }`: (from, to) of a helper that only casts its argument"""
        ds = hb.defs.get(0, [])
        if hb.arg_count != 1 or len(ds) != 1 or ds[0][1] == "term" or any(True for _ in hb.calls()):
            return None
        e = strip_refs(hb.origin_rvalue(ds[0][2]))
        if e[0] == "cast" and e[1] == "IntToInt" and strip_refs(e[2]) == ("param", 1):
            return (e[4], e[3])
        return None
    for x in _writer_bodies(ctx, b):
        if x is not b and pure_cast(x):
            continue     # judged where it is called, with the guards that hold there
        for bb, blk in enumerate(x.blocks):
            if bb not in x.reachable(0):
                continue
            sites = [(s["rv"]["from"], s["rv"]["to"], s["rv"]["a"], s.get("line")) for s in blk["stmts"] if s["k"] == "assign" and s["rv"]["k"] == "cast" and s["rv"]["kind"] == "IntToInt"]
            t = x.term(bb)
            if t["k"] == "call" and t.get("local_key") in F.bodies and t["local_key"] not in anchors(F) and pure_cast(F.bodies[t["local_key"]]):
                pc = pure_cast(F.bodies[t["local_key"]])
                sites.append((pc[0], pc[1], t["args"][0], t.get("line")))
            for fr, to, opnd, line_ in sites:
                s = {"line": line_}
                if fr not in bits or to not in bits or bits[fr] <= bits[to]:
                    continue
                o = strip_refs(x.origin_operand(opnd))
                if o[0] == "const":
                    continue
                if o[0] == "bin" and o[1] in ("Rem", "BitAnd"):
                    c = _const_of_expr(o[3])
                    if c is not None and c <= 2 ** bits[to]:
                        continue   # a remainder: bounded by its (literal) divisor
                d = describe(x, o)
                fit = [g for g in described_guards(x, bb) if g[0] == "cmp" and g[1] == d and g[3] is not None and g[3] < 2 ** bits[to]]
                ctx.ob(rule, key, "narrowing-cast-bounded:%s->%s" % (fr, to), bool(fit), line=s.get("line"), how="`%s as %s` behind %s <= %s" % (d, to, d, fit[0][3] if fit else "?"),
                       detail="the magnitude `%s` is narrowed from %s to %s with no guard bounding it below 2^%d on that path: larger values lose their high digits" % (d, fr, to, bits[to]))
    # digits are moved as bytes: a wider store (`dst.cast::<u16>().write_unaligned(pair)`) puts them
    # down in the byte order of the target
    wide = []
    nbytes = 0
    for x in _writer_bodies(ctx, b):
        for bb, t in x.calls():
            n = callee_name(t)
            leaf = n.rsplit("::", 1)[-1]
            if (n.startswith("core::ptr::") or n.startswith("core::intrinsics::")) and (leaf.startswith("write") or leaf.startswith("copy") or leaf in ("replace", "swap", "swap_nonoverlapping")):
                pt = [a for a in t.get("arg_tys", []) if a.startswith("*mut ")]
                elem = pt[0][5:].strip() if pt else (t.get("generic_args") or ["?"])[0]
                if elem == "u8":
                    nbytes += 1
                elif leaf in ("write", "write_unaligned", "write_volatile") and len(t["args"]) == 2 and re.match(r"^core::num::<impl u\d+>::from_ne_bytes\(", describe(x, x.origin_operand(t["args"][1]))):
                    nbytes += 1      # bytes gathered and stored in the same (native) order: order-neutral
                else:
                    wide.append("%s::<%s> (line %s)" % (n, elem, t.get("line")))
        for blk in x.blocks:
            for s_ in blk["stmts"]:
                if s_["k"] == "assign" and s_["lhs"]["p"] and s_["lhs"]["p"][-1] == "deref" and s_.get("lhs_ty") in ("u16", "u32", "u64", "u128", "usize", "i16", "i32", "i64"):
                    if (x.local_ty(s_["lhs"]["l"]) or "").startswith("*mut "):
                        wide.append("store of %s through a raw pointer (line %s)" % (s_.get("lhs_ty"), s_.get("line")))
    ctx.ob(rule, key, "byte-wise-writes", not wide, how="%d raw writes, all of u8 elements" % nbytes,
           detail="the digit writer stores through a pointer wider than a byte: %s - on a big-endian target the two digits of a pair come out swapped" % "; ".join(wide[:3]))
    # loop thresholds: the 4-digit loop runs while n >= 10^4, the 2-digit step on n >= 100, last split n < 10
    # as intervals: some edge establishes n >= 10^4, one n >= 100, one splits at 10
    wb = _writer_bodies(ctx, b)
    los = {lo for x in wb for _, lo, hi, _, _ in cmp_facts(x) if lo is not None and hi is None}
    his = {hi for x in wb for _, lo, hi, _, _ in cmp_facts(x) if hi is not None and lo is None}
    for x in wb:
        # `self >= 10000` as the whole body of a small predicate (a trait method of the work type)
        for (dbb, si, rv) in x.defs.get(0, []):
            if si != "term":
                e = strip_refs(x.origin_rvalue(rv))
                if e[0] == "bin" and e[1] in ("Ge", "Gt", "Lt", "Le"):
                    c = _const_of_expr(e[3])
                    if c is not None:
                        (los if e[1] in ("Ge", "Gt") else his).add(c if e[1] in ("Ge", "Le") else (c + 1 if e[1] == "Gt" else c - 1))
    need = [100, 10] + ([10000] if own >= 16 else [])
    miss = [k for k in need if k not in los and (k - 1) not in his]
    ctx.ob(rule, key, "thresholds", not miss, how="guards n >= 10^4 / n >= 100 / n >= 10 present (as intervals)", detail="unrolled writer lacks the split(s) at %s; lower bounds seen %s" % (miss, sorted(x for x in los if x < 100000)))
    # divisors
    divs = set()
    for x in wb:
        for blk in x.blocks:
            for s in blk["stmts"]:
                if s["k"] == "assign" and s["rv"]["k"] == "bin" and s["rv"]["op"] in ("Div", "Rem"):
                    v = _const_of(x, s["rv"]["b"])
                    divs.add((s["rv"]["op"], v))
    needd = {("Rem", 100), ("Div", 100)}
    if own >= 16:
        needd |= {("Rem", 10000), ("Div", 10000)}
    ctx.ob(rule, key, "divisors", needd <= divs and all(v in (100, 10000) for _, v in divs), how="divides / reduces by 10^4 and 10^2 only", detail="unrolled writer divides by %s" % sorted(divs))
