"""Drive the typestate solver over every entry point (R-proto / R-contract / R-erratomic)."""
from facts import Facts, callee_name, strip_refs
from typestate import Solver, entry_tuples, base_type, TRACKED_TYPES, CONTRACTS, T

# private helpers with an implicit contract: analysed only in their callers' context
NON_ENTRY = {
    "repr::Repr::make_shallow_clone::ref_count_overflow": "consumes the increment its only caller just made (ptr::read + release), then panics",
}


def tracked_params(body):
    out = []
    for i in range(1, body.arg_count + 1):
        bt = base_type(body.local_ty(i))
        if bt in TRACKED_TYPES:
            out.append((i, bt))
    return out


def run(F):
    S = Solver(F)
    stats = {"entries": 0, "bodies": 0, "tracked_locals": 0}
    for path, body in F.bodies.items():
        if body.j["kind"] == "closure":
            # closures capture `self` by reference in an upvar struct; handled through callers
            pass
        fn = F.fns.get(path, {})
        # roots of the whole-program walk: the exported API (inherent methods and trait impls).
        # Internal functions and private helpers are analysed in the contexts the API gives them,
        # so extracting or inlining a helper does not change what is checked.
        is_root = bool(fn.get("exported")) and body.j.get("safety") != "unsafe" and path not in NON_ENTRY
        tps = tracked_params(body) if is_root else []
        if tps:
            stats["bodies"] += 1
        for (i, bt) in tps:
            kinds = ("I", "S", "H")
            if bt == "repr::heap_buffer::HeapBuffer":
                kinds = ("H",)
            elif bt == "repr::static_buffer::StaticBuffer":
                kinds = ("S",)
            elif bt == "repr::inline_buffer::InlineBuffer":
                kinds = ("I",)
            for t0 in entry_tuples(kinds):
                stats["entries"] += 1
                S.summary(body, ("param", i), t0)
        # closures that capture a handle and hand it to crate-internal (Repr-level) functions: the
        # captured reference is analysed like a receiver (all kinds, shared)
        if body.j["kind"] == "closure":
            ups = set()
            for bb, t in body.calls():
                k = t.get("local_key")
                if not k or not (k.startswith("repr::") or callee_name(t) in CONTRACTS):
                    continue
                for a in t["args"]:
                    e = strip_refs(body.origin_operand(a))
                    while e[0] in ("ref", "rawptr", "deref") or (e[0] == "field" and not (len(e) > 3 and e[3] and base_type(e[3]) in TRACKED_TYPES and strip_refs(e[1]) in (("deref", ("param", 1)), ("param", 1)))):
                        if e[0] == "field":
                            e = strip_refs(e[1])
                        else:
                            e = strip_refs(e[2] if e[0] != "deref" else e[1])
                        if e[0] not in ("ref", "rawptr", "deref", "field"):
                            break
                    if e[0] == "field" and len(e) > 3 and e[3] and base_type(e[3]) in TRACKED_TYPES:
                        ups.add(e[2])
            for u in sorted(ups):
                for t0 in entry_tuples(("I", "S", "H")):
                    stats["entries"] += 1
                    S.summary(body, ("upvar", u), t0)
        # tracked locals: raw Repr/HeapBuffer locals used as receivers of local calls
        locs = set()
        for bb, t in body.calls():
            if not t.get("local_key") or not t["args"]:
                continue
            for a in t["args"]:
                e = strip_refs(body.origin_operand(a))
                while e[0] in ("ref", "rawptr", "deref"):
                    e = strip_refs(e[2] if e[0] != "deref" else e[1])
                if e[0] in ("local", "mem") and base_type(body.local_ty(e[1])) in ("repr::Repr", "repr::heap_buffer::HeapBuffer") and not (1 <= e[1] <= body.arg_count):
                    locs.add(e[1])
                # a LeanString local whose inner Repr is handed to a crate-internal function directly
                # (bypassing the safe API): track it too
                if e[0] == "field" and e[2] == 0:
                    r = strip_refs(e[1])
                    while r[0] in ("ref", "rawptr", "deref"):
                        r = strip_refs(r[2] if r[0] != "deref" else r[1])
                    if r[0] in ("local", "mem") and body.local_ty(r[1]) == "LeanString" and not (1 <= r[1] <= body.arg_count) and (t["local_key"].startswith("repr::")):
                        locs.add(r[1])
        for l in sorted(locs):
            stats["tracked_locals"] += 1
            t0 = T(kind="U", uniq=False, ref="own", acq=False, inc=0, asg=False, dirty=False, ret=None, facts=frozenset())
            S.summary(body, ("local", l), t0)
    return S, stats


if __name__ == "__main__":
    import sys
    F = Facts(sys.argv[1])
    S, stats = run(F)
    print(stats, len(S.obs), "obligations")
    byrule = {}
    for o in S.obs.values():
        byrule.setdefault(o.rule, [0, 0])
        byrule[o.rule][0 if not o.bad else 1] += 1
    print(byrule)
    for o in S.obs.values():
        if o.bad:
            print("VIOL", o.key, "line", o.line)
            for d in o.bad[:3]:
                print("     ", d)
    if len(sys.argv) > 2:
        for o in S.obs.values():
            if sys.argv[2] in o.key:
                print("OB", o.key, o.ok, o.bad, o.how)
