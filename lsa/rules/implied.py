"""Edges that cannot be taken: a small linear-arithmetic argument over the guard facts that hold at
a block.  Used for one thing only - deciding that a *defensive* assertion (`assert!(idx <= self.len())`
after the char-boundary check, `assert!(len + n <= self.capacity())` after a successful reserve) has
no failing edge, so the rules about explicit panics do not count it.

Facts are inequalities  sum(coef * symbol) + const >= 0  over usize-valued symbols (descriptions of
calls / parameters, all >= 0).  They come from
  - the comparison edges that dominate the block (including the assertion's own failing edge),
  - `text.is_char_boundary(x)` having passed                =>  x <= len(text),
  - a successful `reserve(self, n)` (C11-reserve: Ok=>room) =>  len(self) + n <= capacity(self),
  - a successful `HeapBuffer::with_capacity(n)` (CAPROOT)    =>  capacity(result) == n,
  - `len_utf8(..)` is between 1 and 4,
  - `text[a..].chars().next()` being None  =>  len(text) - a <= 0,
  - the same pure predicate (is_char_boundary, ...) on the same operands, passed earlier and failing now.
The block is unreachable when a sum of at most three facts is a negative constant minus symbols.
Descriptions are not flow-sensitive (`self.len()` before and after a call read the same); the
argument is therefore used only to discard panic edges, never to establish a safety fact."""
import re
from itertools import combinations
from facts import callee_name, strip_refs
from guards import describe, guards_at


class _L:
    __slots__ = ("t", "c")

    def __init__(self, t=None, c=0):
        self.t = {k: v for k, v in (t or {}).items() if v}
        self.c = c

    def __add__(self, o):
        t = dict(self.t)
        for k, v in o.t.items():
            t[k] = t.get(k, 0) + v
        return _L(t, self.c + o.c)

    def neg(self):
        return _L({k: -v for k, v in self.t.items()}, -self.c)

    def __sub__(self, o):
        return self + o.neg()

    def plus(self, k):
        return _L(self.t, self.c + k)

    def same(self, o):
        return self.t == o.t and self.c == o.c


_LEN_OF_VIEW = re.compile(r"core::str::<impl str>::len\(repr::Repr::as_str(?:_mut)?\((p\d+)\)\)")


def _norm(d):
    d = _LEN_OF_VIEW.sub(r"repr::Repr::len(\1)", d)
    d = re.sub(r"core::str::<impl str>::len\(TEXT\((p\d+)\)\)", r"repr::Repr::len(\1)", d)
    return d


def _resolve_mem(b, e, at_bb):
    """a `let mut x = <call>` local that nothing has mutably borrowed on the way to at_bb reads as its
    single definition"""
    e0 = strip_refs(e)
    while e0[0] in ("ref", "rawptr"):
        e0 = strip_refs(e0[2])
    if e0[0] in ("mem", "local"):
        ds = b.defs.get(e0[1], [])
        if len(ds) == 1:
            dbb = ds[0][0]
            for x in b.reachable(dbb, unwind=False):
                if x == at_bb or at_bb not in b.reachable(x, unwind=False):
                    continue
                for s in b.blocks[x]["stmts"]:
                    if s["k"] == "assign" and s["rv"]["k"] in ("ref", "rawptr") and s["rv"].get("mut") and s["rv"]["pl"]["l"] == e0[1] and x != dbb:
                        return e0
            return strip_refs(("call", dbb) if ds[0][1] == "term" else b.origin_rvalue(ds[0][2]))
    return e0


def lin(b, e, at_bb=None, depth=0):
    e = strip_refs(e)
    k = e[0]
    if depth > 20:
        return _L({"?deep": 1})
    if k == "const":
        return _L({}, e[2]) if isinstance(e[2], int) and not isinstance(e[2], bool) else _L({_norm(describe(b, e)): 1})
    if k == "cast" and e[1] == "IntToInt":
        return lin(b, e[2], at_bb, depth + 1)
    if k == "field" and e[1][0] == "bin" and e[1][1].endswith("WithOverflow") and e[2] == 0:
        return lin(b, ("bin", e[1][1].replace("WithOverflow", ""), e[1][2], e[1][3]), at_bb, depth + 1)
    if k == "bin":
        op = e[1]
        if op in ("Add", "AddUnchecked"):
            return lin(b, e[2], at_bb, depth + 1) + lin(b, e[3], at_bb, depth + 1)
        if op in ("Sub", "SubUnchecked"):
            return lin(b, e[2], at_bb, depth + 1) - lin(b, e[3], at_bb, depth + 1)
    if k == "field" and e[2] == 0 and e[1][0] == "downcast" and strip_refs(e[1][1])[0] == "call":
        p = _payload(b, strip_refs(e[1][1]), at_bb, depth + 1)
        if p is not None:
            return p
    if k == "call" and at_bb is not None:
        t = b.term(e[1])
        if len(t["args"]) == 1 and callee_name(t).endswith("::capacity"):
            a = _resolve_mem(b, b.origin_operand(t["args"][0]), at_bb)
            return _L({"%s(%s)" % (callee_name(t), _norm(describe(b, a))): 1})
    return _L({_norm(describe(b, e)): 1})


def _payload(b, e, at_bb, depth):
    """the usize inside Some(..) / Ok(..) produced by a call: len.checked_add(n).ok_or(E)? is len + n"""
    if depth > 20 or e[0] != "call":
        return None
    t = b.term(e[1])
    n = callee_name(t)
    args = [strip_refs(b.origin_operand(a)) for a in t["args"]]
    if n.endswith("::checked_add") and n.startswith("core::num::<impl u") and len(args) == 2:
        return lin(b, args[0], at_bb, depth + 1) + lin(b, args[1], at_bb, depth + 1)
    if n.endswith("::checked_sub") and n.startswith("core::num::<impl u") and len(args) == 2:
        return lin(b, args[0], at_bb, depth + 1) - lin(b, args[1], at_bb, depth + 1)
    if n in ("core::option::Option::<T>::ok_or", "core::option::Option::<T>::ok_or_else") or n.endswith("as core::ops::try_trait::Try>::branch"):
        return _payload(b, args[0], at_bb, depth + 1) if args and args[0][0] == "call" else None
    return None


_SUBVIEW = ("core::str::traits::<impl core::ops::index::Index<I> for str>::index", "core::str::traits::<impl core::ops::index::IndexMut<I> for str>::index_mut",
            "core::str::<impl str>::get_unchecked", "core::str::<impl str>::get_unchecked_mut")


def _text_len(b, e, at_bb, depth=0):
    """length of a str expression: a storage view (len(self)), or a sub-range of one"""
    e = strip_refs(e)
    while e[0] in ("ref", "rawptr", "deref"):
        e = strip_refs(e[2] if e[0] != "deref" else e[1])
    if depth > 6:
        return None
    if e[0] in ("mem", "local"):
        ds = b.defs.get(e[1], [])
        if len(ds) == 1:
            return _text_len(b, ("call", ds[0][0]) if ds[0][1] == "term" else b.origin_rvalue(ds[0][2]), at_bb, depth + 1)
        return None
    if e[0] != "call":
        return None
    t = b.term(e[1])
    n = callee_name(t)
    if n in ("repr::Repr::as_str", "repr::Repr::as_str_mut", "LeanString::as_str") and t["args"]:
        return _L({"repr::Repr::len(%s)" % describe(b, b.origin_operand(t["args"][0])): 1})
    if n in _SUBVIEW and len(t["args"]) == 2:
        base = _text_len(b, b.origin_operand(t["args"][0]), at_bb, depth + 1)
        r = strip_refs(b.origin_operand(t["args"][1]))
        if r[0] == "agg" and base is not None:
            if r[1].endswith("RangeFrom") and len(r[3]) == 1:
                return base - lin(b, r[3][0], at_bb)
            if r[1].endswith("::Range") and len(r[3]) == 2:
                return lin(b, r[3][1], at_bb) - lin(b, r[3][0], at_bb)
            if r[1].endswith("RangeTo") and len(r[3]) == 1:
                return lin(b, r[3][0], at_bb)
    return None


def _ineqs(b, bb):
    out = []          # list of _L, each meaning  L >= 0
    ne = []           # pairs that are asserted different
    for g in guards_at(b, bb):
        k = g[0]
        if k == "cmp":
            r = lin(b, g[1], bb)
            if g[2] is not None:
                out.append(r.plus(-g[2]))
            if g[3] is not None:
                out.append(r.neg().plus(g[3]))
        elif k == "cmp2":
            a, c = lin(b, g[2], bb), lin(b, g[3], bb)
            op = g[1]
            if op == "Le":
                out.append(c - a)
            elif op == "Lt":
                out.append((c - a).plus(-1))
            elif op == "Ge":
                out.append(a - c)
            elif op == "Gt":
                out.append((a - c).plus(-1))
            elif op == "Eq":
                out += [a - c, c - a]
            elif op == "Ne":
                ne.append((a, c))
        elif k == "pred" and g[1] == "core::str::<impl str>::is_char_boundary" and g[3] is True and len(g) > 5 and len(g[5]) == 2:
            ln = _L({_norm("core::str::<impl str>::len(%s)" % describe(b, g[5][0])): 1})
            out.append(ln - lin(b, g[5][1], bb))
        elif k == "cls" and g[2] == "None" and isinstance(g[1], int):
            # `text.chars().next()` (or next_back / char_indices) is None only for an empty text
            t = b.term(g[1])
            n = callee_name(t)
            if ("core::str::iter::Chars<" in n or "core::str::iter::CharIndices<" in n) and (n.endswith("::next") or n.endswith("::next_back")) and t["args"]:
                from guards import _iter_source
                it = _iter_source(b, b.origin_operand(t["args"][0]))
                if it[0] == "call" and callee_name(b.term(it[1])) in ("core::str::<impl str>::chars", "core::str::<impl str>::char_indices"):
                    tl = _text_len(b, b.origin_operand(b.term(it[1])["args"][0]), bb)
                    if tl is not None:
                        out.append(tl.neg())
        elif k == "cls" and g[2] == "Ok" and isinstance(g[1], int):
            t = b.term(g[1])
            n = callee_name(t)
            if n == "repr::Repr::reserve" and len(t["args"]) == 2:
                r = describe(b, b.origin_operand(t["args"][0]))
                out.append(_L({"repr::Repr::capacity(%s)" % r: 1, "repr::Repr::len(%s)" % r: -1}) - lin(b, b.origin_operand(t["args"][1]), bb))
            if n == "repr::heap_buffer::HeapBuffer::with_capacity" and len(t["args"]) == 1:
                capsym = _L({"repr::heap_buffer::HeapBuffer::capacity(%s)" % _norm(describe(b, ("call", g[1]))): 1})
                capok = _L({"repr::heap_buffer::HeapBuffer::capacity(ok(%s))" % _norm(describe(b, ("call", g[1]))): 1})
                a = lin(b, b.origin_operand(t["args"][0]), bb)
                out += [capsym - a, a - capsym, capok - a, a - capok]
    syms = set()
    for x in out:
        syms |= set(x.t)
    for a, c in ne:
        syms |= set(a.t) | set(c.t)
    for s in syms:
        if "len_utf8(" in s and s.startswith("core::char::methods::<impl char>::len_utf8("):
            out.append(_L({s: 1}, -1))
            out.append(_L({s: -1}, 4))
    return out, ne


def infeasible(b, bb):
    """no execution reaches block bb: the facts on the edges leading to it contradict each other"""
    try:
        I, ne = _ineqs(b, bb)
    except Exception:
        return False
    # the same pure predicate on the same (described) operands, once true and once false
    seen = {}
    for g in guards_at(b, bb):
        if g[0] == "pred" and isinstance(g[3], bool):
            ops = tuple(_norm(describe(b, x)) for x in g[5]) if len(g) > 5 and g[5] else (_norm(describe(b, g[2])) if g[2] is not None else None,)
            key = (g[1], ops)
            if seen.setdefault(key, g[3]) != g[3]:
                return True
    if len(I) > 24:
        I = I[-24:]
    if _contra(I):
        return True
    for a, c in ne:
        d = a - c
        if a.same(c) or (_contra(I + [d.plus(-1)]) and _contra(I + [d.neg().plus(-1)])):
            return True
    return False


def _contra(I):
    for r in (1, 2, 3):
        for sub in combinations(I, r):
            s = sub[0]
            for x in sub[1:]:
                s = s + x
            if s.c < 0 and all(v <= 0 for v in s.t.values()):
                return True
    return False
