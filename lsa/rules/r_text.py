"""C01 structural clauses T1-T5 (tag-table agreement, publish-after-write, inline bounds) and the
C20 niche/tag-byte clause."""
import re
from facts import callee_name, strip_refs
from guards import guards_at, describe, eval_int, cmp_facts, inlined_calls, inlined_sites, anchors
from typestate import WRITE_PRIMS
from typestate import Solver, T

LB = "repr::last_byte::LastByte"
WRITE_CALLS = ("core::slice::<impl [T]>::copy_from_slice", "core::ptr::copy", "core::ptr::copy_nonoverlapping",
               "core::char::methods::<impl char>::encode_utf8", "core::ptr::write", "core::ptr::write_bytes")
VIEWS = ("repr::Repr::as_slice_mut", "repr::Repr::as_str_mut")


def last_mem_byte(F, value):
    bs = value.to_bytes(F.ptr_bytes, F.endian)
    return bs[F.ptr_bytes - 1]


def _indexed_stores(b):
    """stores into one element of an array / slice: `a[i] = v`, or `*p = v` with `p = &mut a[i]` (what a
    slice pattern `let [.., last] = &mut a` binds).  -> (block, index, value, statement, base local of a)"""
    out = []
    def root(pl):
        # `(*r)[i]` with `r = &mut a`: the array is a
        l, pr = pl["l"], pl["p"]
        for _ in range(3):
            if pr and pr[0] == "deref":
                ds = b.defs.get(l, [])
                if len(ds) == 1 and ds[0][1] != "term" and ds[0][2]["k"] in ("ref", "rawptr") and not ds[0][2]["pl"]["p"]:
                    l, pr = ds[0][2]["pl"]["l"], pr[1:]
                    continue
            break
        return l
    def elem(pl):
        if pl["p"] and isinstance(pl["p"][-1], dict) and ("idx" in pl["p"][-1] or "cidx" in pl["p"][-1]):
            pe = pl["p"][-1]
            if "idx" in pe:
                return eval_int(strip_refs(b.origin_local(pe["idx"])))
            return (pe.get("min_length", 0) - pe["cidx"]) if pe.get("from_end") else pe["cidx"]
        return "no"
    for bb, blk in enumerate(b.blocks):
        for s in blk["stmts"]:
            if s["k"] != "assign":
                continue
            lhs = s["lhs"]
            i = elem(lhs)
            if i != "no":
                out.append((bb, i, b.origin_rvalue(s["rv"]), s, root(lhs)))
            elif lhs["p"] == ["deref"]:
                ds = b.defs.get(lhs["l"], [])
                if len(ds) == 1 and ds[0][1] != "term" and ds[0][2]["k"] in ("ref", "rawptr") and ds[0][2].get("mut"):
                    i = elem(ds[0][2]["pl"])
                    if i != "no":
                        out.append((bb, i, b.origin_rvalue(s["rv"]), s, root(ds[0][2]["pl"])))
    return out


def _follow_forward(F, b, depth=3):
    """`fn len(&self) -> usize { imp::len(self) }`: the private helper the whole body forwards to"""
    while b is not None and depth > 0:
        depth -= 1
        ds = b.defs.get(0, [])
        if len(ds) != 1 or ds[0][1] != "term":
            break
        t = b.term(ds[0][0])
        k = t.get("local_key")
        if not k or k not in F.bodies or k in anchors(F) or F.bodies[k].j["kind"] == "closure":
            break
        if [describe(b, b.origin_operand(a)) for a in t["args"]] != ["p%d" % (i + 1) for i in range(b.arg_count)]:
            break
        if sum(1 for _ in b.calls()) != 1:
            break
        b = F.bodies[k]
    return b


def rule_T1(ctx, rule="T1-tags"):
    F = ctx.F
    hm = F.enum_discr(LB, "HeapMarker")
    sm = F.enum_discr(LB, "StaticMarker")
    M = F.const_scalar("repr::MAX_INLINE_SIZE")
    mask = F.const_scalar(LB + "::MASK_1100_0000")
    ctx.need(rule, LB, "markers", hm is not None and sm is not None and mask is not None, "LastByte::HeapMarker/StaticMarker/MASK not found")
    if hm is None or sm is None or mask is None:
        return
    # the tag words OR-ed into the length word by the writers (wherever the constants are declared)
    exp_heap = (hm << (8 * (F.ptr_bytes - 1))) if F.endian == "little" else hm
    exp_static = (sm << (8 * (F.ptr_bytes - 1))) if F.endian == "little" else sm
    for fn, exp, what in (("repr::heap_buffer::internal::TextLen::new", exp_heap, "HeapMarker"), ("repr::static_buffer::StaticBuffer::new", exp_static, "StaticMarker"), ("repr::static_buffer::StaticBuffer::set_len", exp_static, "StaticMarker")):
        b = F.bodies.get(fn)
        ctx.need(rule, fn, "anchor", b is not None, "%s not found" % fn)
        if not b:
            continue
        ors = []
        from guards import inlined_bodies
        for hb, sub in inlined_bodies(b):
            for blk in hb.blocks:
                for st in blk["stmts"]:
                    if st["k"] == "assign" and st["rv"]["k"] == "bin" and st["rv"]["op"] == "BitOr":
                        for side in ("a", "b"):
                            o = st["rv"][side]
                            if "c" in o and "scalar" in o["c"]:
                                ors.append(o["c"]["scalar"])
        ctx.ob(rule, fn, "tag-word", ors == [exp] or (ors and all(x == exp for x in ors)), how="length word |= %#x: last memory byte (%s-endian) = %s, other bytes 0" % (exp, F.endian, what),
               detail="%s ORs %s into the length word; the readers test the last byte against %s = %#x" % (fn, [hex(x) for x in ors], what, hm if what == "HeapMarker" else sm))
    # ordering of tag bytes: text bytes < 0xC0 <= inline tags < HeapMarker < StaticMarker
    lens = [F.enum_discr(LB, "Length%02d" % i) for i in range(M)]
    ctx.ob(rule, LB, "inline-tags", all(l == (mask | i) for i, l in enumerate(lens)) and mask == 0xC0 and (mask | (M - 1)) < hm < sm,
           how="Length00..Length%02d = 0xC0|len, all < HeapMarker %#x < StaticMarker %#x; UTF-8 final bytes are < 0xC0" % (M - 1, hm, sm),
           detail="tag byte ordering broken: inline tags %s, heap %#x, static %#x" % ([hex(l) if l is not None else None for l in lens[:3]], hm, sm))
    # writers: InlineBuffer::{new, empty, set_len} store len | MASK at index MAX_INLINE_SIZE-1
    for fn in ("repr::inline_buffer::InlineBuffer::new", "repr::inline_buffer::InlineBuffer::set_len", "repr::inline_buffer::InlineBuffer::empty"):
        b = F.bodies.get(fn)
        ctx.need(rule, fn, "anchor", b is not None, "%s not found" % fn)
        if not b:
            continue
        stores = [(bb, idx, val, s) for (bb, idx, val, s, base) in _indexed_stores(b)]
        if fn.endswith("::empty") and not stores:
            # `empty()` written as `Self::new("")`
            ds = [describe(b, ("call", bb) if si == "term" else b.origin_rvalue(x)) for (bb, si, x) in b.defs.get(0, [])]
            ctx.ob(rule, fn, "tag-store", len(ds) == 1 and ds[0].startswith("repr::inline_buffer::InlineBuffer::new(const:"), how="empty() = InlineBuffer::new(\"\")", detail="InlineBuffer::empty is %s" % ds)
            continue
        ctx.need(rule, fn, "tag-store", len(stores) == 1, "%s has %d indexed stores (expected exactly the tag byte)" % (fn, len(stores)), how="one indexed store")
        for bb, idx, val, s in stores:
            ctx.ob(rule, fn, "tag-index", idx == M - 1, how="tag stored at byte %d" % (M - 1), detail="tag byte stored at index %s, readers look at byte %d" % (idx, M - 1))
            v = strip_refs(val)
            if fn.endswith("::empty"):
                c = eval_int(v)
                ctx.ob(rule, fn, "tag-value", c == mask, how="empty tag = 0xC0|0", detail="empty inline buffer tagged %s" % c)
            else:
                d = describe(b, v)
                # evaluated for every length the tag is written for: tag(len) = 0xC0 | len, len < M
                lenvar = "p2" if fn.endswith("::set_len") else "core::str::<impl str>::len(p1)"
                bad = []
                for ln_ in range(0, M):
                    got = _ceval(b, v, None, F, 0, None, {lenvar: ln_})
                    if got != (mask | ln_):
                        bad.append((ln_, got))
                ctx.ob(rule, fn, "tag-value", not bad, how="tag(len) = 0xC0 | len for every len < %d (evaluated): %s" % (M, d[:80]), detail="inline tag for len %s is %s, readers expect %#x (%d lengths differ): %s" % ((bad[0][0], bad[0][1], mask | bad[0][0], len(bad), d[:160]) if bad else ("-", "-", 0, 0, d[:160])))
    # ... and nobody else stores into the inline bytes by index: the three writers above are the
    # audited ones (a fourth - "lower the tag in place" - is judged by nobody: on a full buffer the
    # last byte is text, not a tag)
    from guards import anchor_callers
    audited = ("repr::inline_buffer::InlineBuffer::new", "repr::inline_buffer::InlineBuffer::set_len", "repr::inline_buffer::InlineBuffer::empty")
    for path, b in F.bodies.items():
        if path in audited:
            continue
        for (bb, _i, _v, s, base) in _indexed_stores(b):
                if "InlineBuffer" in (b.local_ty(base) or ""):
                    ok = path not in anchors(F) and anchor_callers(F, path) and anchor_callers(F, path) <= set(audited)
                    ctx.ob(rule, path, "inline-bytes-writer", bool(ok), line=s.get("line"), how="helper of an audited tag writer",
                           detail="%s stores into the inline buffer's bytes by index: the tag byte has three audited writers (InlineBuffer::new / empty / set_len, each evaluated for every length); a store made anywhere else is not known to leave a valid tag or text byte" % path)
    # ... nor builds an InlineBuffer from bytes of its own: `InlineBuffer(bytes)` appears in new / empty only
    for path, b in F.bodies.items():
        if path in audited:
            continue
        for bb, blk in enumerate(b.blocks):
            for s in blk["stmts"]:
                if s["k"] == "assign" and s["rv"]["k"] == "aggregate" and s["rv"].get("adt") == "repr::inline_buffer::InlineBuffer":
                    ok = path not in anchors(F) and anchor_callers(F, path) and anchor_callers(F, path) <= set(audited)
                    ctx.ob(rule, path, "inline-buffer-constructor", bool(ok), line=s.get("line"), how="helper of an audited tag writer",
                           detail="%s builds an InlineBuffer directly: the tag byte of a buffer made here is not one the audited writers (InlineBuffer::new / empty, evaluated for every length) produced - a full buffer has no tag byte at all" % path)
    # readers: is_heap_buffer / is_static_buffer summaries, by kind
    S = Solver(F)
    for fn, kind in (("repr::Repr::is_heap_buffer", "H"), ("repr::Repr::is_static_buffer", "S")):
        b = F.bodies.get(fn)
        ctx.need(rule, fn, "anchor", b is not None, "%s not found" % fn)
        if not b:
            continue
        good = True
        got = {}
        for k in ("I", "S", "H"):
            t0 = T(kind=k, uniq=False, ref="own", acq=False, inc=0, asg=False, dirty=False, ret=None, facts=frozenset())
            res = S.summary(b, ("param", 1), t0)
            vals = {c for c, _ in res}
            got[k] = sorted(vals, key=str)
            if vals != {k == kind}:
                good = False
        ctx.ob(rule, fn, "reader-agrees", good, how="returns true exactly for the %s tag byte (%s)" % ("heap" if kind == "H" else "static", got), detail="%s by storage kind: %s" % (fn, got))
    lb = F.bodies.get("repr::Repr::last_byte")
    if lb:
        d = describe(lb, lb.origin_local(0))
        ctx.ob(rule, lb.path, "reads-field-2", d == "(discr as u8)" or "discr" in d or d.startswith("(") and ".2" in d, how="last_byte = self.2 as u8", detail="last_byte returns %s" % d)
    # len: the inline arm decodes the tag byte correctly for EVERY byte an inline string can end in
    # (0xC0|len for len < MAX_INLINE_SIZE, and any UTF-8 final byte < 0xC0 of a full buffer):
    # the decoding expression is evaluated for all of them
    ln = _follow_forward(F, F.bodies.get("repr::Repr::len"))
    branchless = False
    if ln:
        cands = []
        for leaf in _value_leaves(ln, ln.origin_local(0)):
            d = describe(ln, leaf)
            if "repr::Repr::last_byte(p1)" in d and "HeapBuffer::len" not in d and "StaticBuffer::len" not in d:
                cands.append((leaf, d))
        ctx.need(rule, ln.path, "inline-len-expression", len(cands) == 1, "Repr::len has %d candidate expressions for the inline length (%s)" % (len(cands), [d[:80] for _, d in cands]), how="one inline length expression")
        for leaf, d in cands:
            bad = []
            for byte in range(0, 0xC0 + M):      # data bytes of a full buffer, then the tags 0xC0|len, len < M
                v = _ceval(ln, leaf, byte, F)
                want = M if byte < 0xC0 else byte - 0xC0
                if v != want:
                    bad.append((byte, v, want))
            ctx.ob(rule, ln.path, "inline-len-decoding", not bad, how="decodes all %d possible last bytes of an inline string (tags 0xC0|len and data bytes < 0xC0 of a full buffer): %s" % (0xC0 + M, d[:120]),
                   detail="Repr::len decodes the inline length wrongly for last byte %s (got %s, expected %s; %d bytes differ): %s" % ((("%#x" % bad[0][0], bad[0][1], bad[0][2], len(bad)) if bad else ("-", "-", "-", 0)) + (d[:160],)))
            # a branchless select: for the two markers the same expression must yield the stored length word
            vh, vs_ = _ceval(ln, leaf, hm, F), _ceval(ln, leaf, sm, F)
            if isinstance(vh, _U) and isinstance(vs_, _U) and vh == vs_ and "last_byte" not in vh:
                branchless = True
                ctx.ob(rule, ln.path, "inline-vs-heap-test", True, how="branchless select: the markers %#x / %#x yield the stored length word %s" % (hm, sm, vh[:60]))
    if ln and F.ptr_bits == 64:
        # the heap / static arm of the 64-bit len(): the second word with its last memory byte (the
        # marker) cleared, read as little-endian - evaluated on a word whose seven length bytes differ
        tail = [0x11, 0x22, 0x33, 0x44, 0x55, 0x66, 0x77]
        want = int.from_bytes(bytes(tail), "little")
        leaves = _value_leaves(ln, ln.origin_local(0))
        for marker, nm in ((hm, "heap"), (sm, "static")):
            vals = []
            for leaf in leaves:
                d = describe(ln, leaf)
                if "last_byte" in d and len(leaves) > 1 and "::add(" not in d:
                    continue      # the inline arm
                try:
                    v = _ceval(ln, leaf, marker, F, 0, None, {"@tail": tail + [marker]})
                except Exception:
                    v = None
                vals.append(v)
            ints = [v for v in vals if isinstance(v, int) and not isinstance(v, _U) and not isinstance(v, bool)]
            if not ints:
                ctx.ob(rule, ln.path, "word-decoding[%s]" % nm, True, how="length-word expression not evaluated (%s): clause not decided here; HeapBuffer::len / StaticBuffer::len are (length words)" % [str(v)[:40] for v in vals])
            else:
                ctx.ob(rule, ln.path, "word-decoding[%s]" % nm, all(v == want for v in ints), how="tail word 11 22 33 44 55 66 77 %02x reads as %#x" % (marker, want),
                       detail="Repr::len reads the %s length word 11 22 33 44 55 66 77 %02x as %s, expected %#x (the seven bytes before the marker, little-endian)" % (nm, marker, [hex(v) for v in ints], want))
    if ln and F.ptr_bits == 32:
        # three bytes of length word: longer heap texts keep their length in the header, behind a
        # sentinel only HeapBuffer::len knows. The heap arm of Repr::len has to go through it.
        t0 = T(kind="H", uniq=False, ref="own", acq=False, inc=0, asg=False, dirty=False, ret=None, facts=frozenset())
        res, ev = S.walk(ln, ("param", 1), t0)
        via = [e for e in ev if e[2] == "repr::heap_buffer::HeapBuffer::len"]
        ctx.ob(rule, ln.path, "heap-len-via-HeapBuffer::len", bool(via), how="heap arm calls HeapBuffer::len (length word or header, by the sentinel)",
               detail="on a 32-bit target Repr::len of a heap buffer does not go through HeapBuffer::len: the 24-bit length word holds a sentinel for texts of 2^24-1 bytes and more, whose length is in the header")
    if ln and F.ptr_bits == 64 and not branchless:
        facts = [(d, lo, hi) for d, lo, hi, _, _ in cmp_facts(ln) if d == "repr::Repr::last_byte(p1)"]
        ctx.ob(rule, ln.path, "inline-vs-heap-test", any((lo is None and hi == hm - 1) or (lo == hm and hi is None) for _, lo, hi in facts), how="inline iff last_byte < HeapMarker (as an interval: %s)" % facts[:2], detail="Repr::len selects the inline length on %s" % facts)
    ab = _follow_forward(F, F.bodies.get("repr::Repr::as_bytes"))
    if ab:
        facts = [(d, lo, hi) for d, lo, hi, _, _ in cmp_facts(ab) if d == "repr::Repr::last_byte(p1)"]
        ctx.ob(rule, ab.path, "pointer-select", any((lo == hm and hi is None) or (lo is None and hi == hm - 1) for _, lo, hi in facts), how="data pointer = self.0 iff last_byte >= HeapMarker, else the handle itself", detail="as_bytes selects the pointer on %s" % facts)
        for bb, t in ab.calls():
            if callee_name(t).startswith("core::slice::raw::from_raw_parts"):
                l = describe(ab, ab.origin_operand(t["args"][1]))
                ctx.ob(rule, ab.path, "slice-len=len()", l == "repr::Repr::len(p1)", how="slice length = self.len()", detail="as_bytes slice length is %s" % l)


def _value_leaves(body, e, depth=0, seen=None):
    """the alternative value expressions of a place: through phis and multiply-assigned locals"""
    e = strip_refs(e)
    seen = seen if seen is not None else set()
    if depth > 12:
        return [e]
    if e[0] == "phi":
        out = []
        for x in e[1]:
            out += _value_leaves(body, x, depth + 1, seen)
        return out
    if e[0] in ("mem", "local") and e[1] not in seen:
        seen.add(e[1])
        out = []
        for d in body.defs.get(e[1], []):
            x = ("call", d[0]) if d[1] == "term" else body.origin_rvalue(d[2])
            if strip_refs(x) != e:
                out += _value_leaves(body, x, depth + 1, seen)
        return out or [e]
    return [e]


def _word_or_bytes(v, ty, F):
    """memory bytes read as a usize are that word in the target's byte order"""
    if isinstance(v, tuple) and (ty or "").strip() in ("usize", "u64", "u32"):
        return int.from_bytes(bytes(v), "big" if F.endian == "big" else "little")
    return v


class _U(str):
    """an unknown machine word (named by the expression that produces it)"""


def _ceval(body, e, byte, F, depth=0, env=None, binds=None):
    """value of an expression over `last_byte(self)` = byte, in the machine arithmetic of the target:
    an int, a _U token for a value that does not depend on the tag byte alone (the length word of a
    heap / static handle), or None when an operation is not modelled.  Unknown words are absorbed by
    `& 0` and `| all-ones` (branchless selects)."""
    e = strip_refs(e)
    if depth > 40:
        return None
    W = (1 << F.ptr_bits) - 1
    k = e[0]
    E = lambda x: _ceval(body, x, byte, F, depth + 1, env, binds)
    if binds and k in ("param", "call", "field"):
        dd = describe(body, e)
        if dd in binds:
            return binds[dd]
    if k == "param" and env is not None and e[1] in env:
        return env[e[1]]
    if k == "const":
        return e[2] if isinstance(e[2], int) else None
    if k == "cast" and e[1] in ("IntToInt",):
        v = E(e[2])
        if v is None or isinstance(v, _U):
            return v
        bits = {"u8": 8, "u16": 16, "u32": 32, "u64": 64, "usize": F.ptr_bits}.get(e[3])
        return v & ((1 << bits) - 1) if bits else None
    if k == "deref" and binds and "@tail" in binds:
        # the second word of the handle read through a raw pointer: `*(self as *const usize).add(1)`,
        # as a word or as its bytes - bound to the test word's memory bytes
        d = describe(body, e[1])
        if "::add(" in d and "p1" in d and "const:1" in d:
            return tuple(binds["@tail"])
    if k in ("mem", "local"):
        ds = body.defs.get(e[1], [])
        arr_tail = bool(binds) and "@tail" in binds and (body.local_ty(e[1]) or "").startswith("[u8;")
        if len(ds) == 1 and e[1] not in body.partial and not arr_tail:
            v0 = E(("call", ds[0][0]) if ds[0][1] == "term" else body.origin_rvalue(ds[0][2]))
            return _word_or_bytes(v0, body.local_ty(e[1]), F)
        if len(ds) == 1 and binds and "@tail" in binds and (body.local_ty(e[1]) or "").startswith("[u8;"):
            # `tail_bytes[7] = 0` (or `let [.., tag] = &mut tail_bytes; *tag = 0`): an array read from
            # memory and patched at constant indices
            v0 = E(("call", ds[0][0]) if ds[0][1] == "term" else body.origin_rvalue(ds[0][2]))
            if isinstance(v0, tuple):
                arr = list(v0)
                for (pb, ix, val_e, st_, base) in _indexed_stores(body):
                    if base != e[1]:
                        continue
                    val = E(val_e)
                    if not isinstance(ix, int) or not isinstance(val, int) or isinstance(val, _U) or not (0 <= ix < len(arr)):
                        return _U(describe(body, e))
                    arr[ix] = val & 0xFF
                return tuple(arr)
        return _U(describe(body, e))
    if k == "field" and e[1][0] == "bin" and e[1][1].endswith("WithOverflow") and e[2] == 0:
        return E(("bin", e[1][1].replace("WithOverflow", ""), e[1][2], e[1][3]))
    if k == "agg" and len(e[3]) == 1 and e[1] in F.adts:
        return E(e[3][0])          # a newtype around the word
    if k == "field" and e[2] == 0:
        bt = strip_refs(e[1])
        v = E(e[1])
        if isinstance(v, int) and not isinstance(v, bool):
            return v               # ... and its only field
    if k == "un":
        v = E(e[2])
        if v is None or isinstance(v, _U):
            return v if v is None else _U("!" + v)
        if e[1] == "Not":
            if v in (0, 1) and _is_bool(body, e[2]):
                return v ^ 1
            return (~v) & ((1 << _width(body, e[2], F)) - 1)
        if e[1] == "Neg":
            return (-v) & W
        return None
    if k == "bin":
        a, b = E(e[2]), E(e[3])
        if a is None or b is None:
            return None
        a = _word_or_bytes(a, "usize", F) if isinstance(a, tuple) and len(a) == F.ptr_bytes else a
        b = _word_or_bytes(b, "usize", F) if isinstance(b, tuple) and len(b) == F.ptr_bytes else b
        if isinstance(a, tuple) or isinstance(b, tuple):
            return None
        op = e[1]
        ua, ub = isinstance(a, _U), isinstance(b, _U)
        if op == "BitAnd":
            if (not ua and a == 0) or (not ub and b == 0):
                return 0
            if not ua and a == W and ub:
                return b
            if not ub and b == W and ua:
                return a
        if op == "BitOr":
            if not ua and a == 0 and ub:
                return b
            if not ub and b == 0 and ua:
                return a
            if (not ua and a == W) or (not ub and b == W):
                return W
        if op in ("Mul", "MulUnchecked"):
            if (not ua and a == 0) or (not ub and b == 0):
                return 0
            if not ua and a == 1:
                return b
            if not ub and b == 1:
                return a
        if ua or ub:
            return _U("(%s %s %s)" % (a, op, b))
        if op in ("BitAnd", "BitOr", "BitXor"):
            return {"BitAnd": a & b, "BitOr": a | b, "BitXor": a ^ b}[op]
        if op in ("Sub", "SubUnchecked"):
            return a - b if a >= b else None      # would panic / be UB
        if op in ("Add", "AddUnchecked"):
            return a + b
        if op in ("Mul", "MulUnchecked"):
            return a * b
        if op == "Shr":
            return a >> b
        if op == "Shl":
            return (a << b) & W
        if op in ("Lt", "Le", "Gt", "Ge", "Eq", "Ne"):
            import operator as o
            return int({"Lt": o.lt, "Le": o.le, "Gt": o.gt, "Ge": o.ge, "Eq": o.eq, "Ne": o.ne}[op](a, b))
        return None
    if k == "call":
        t = body.term(e[1])
        n = callee_name(t)
        args = [body.origin_operand(a) for a in t["args"]]
        if n == "repr::Repr::last_byte" and len(args) == 1:
            return byte
        leaf = n.rsplit("::", 1)[-1]
        vs = [E(a) for a in args]
        key = t.get("local_key")
        if key and key in body.facts.bodies and key not in anchors(body.facts) and body.facts.bodies[key].j["kind"] != "closure" and not any(v is None for v in vs):
            # a private helper (`inline_len_from_last_byte(b)`): its single result, on these arguments
            hb = body.facts.bodies[key]
            ds = hb.defs.get(0, [])
            henv = {i + 1: v for i, v in enumerate(vs)}
            if len(ds) == 1:
                r = ("call", ds[0][0]) if ds[0][1] == "term" else hb.origin_rvalue(ds[0][2])
                return _ceval(hb, r, byte, F, depth + 1, henv)
            if len(ds) > 1 and depth < 20:
                # `if len < MAX { len } else { MAX }`: follow the branches these arguments take
                bb, seen_, last = 0, set(), None
                for _ in range(60):
                    if bb in seen_:
                        return None
                    seen_.add(bb)
                    for (dbb, si, x) in ds:
                        if dbb == bb and si != "term":
                            last = hb.origin_rvalue(x) if x["k"] != "use" or "c" not in x["a"] else ("const", x["a"]["c"].get("ty"), x["a"]["c"].get("scalar"), None)
                    tt = hb.term(bb)
                    if tt["k"] == "return":
                        break
                    if tt["k"] == "switch":
                        dv = _ceval(hb, hb.origin_operand(tt["discr"]), byte, F, depth + 1, henv)
                        if not isinstance(dv, int) or isinstance(dv, _U):
                            return None
                        bb = next((tb for av, tb in tt["arms"] if av == int(dv)), tt["otherwise"])
                    elif tt["k"] in ("goto", "call", "drop", "assert") and tt.get("target") is not None:
                        if tt["k"] == "call" and not tt["dest"]["p"] and tt["dest"]["l"] == 0:
                            last = ("call", bb)
                        bb = tt["target"]
                    else:
                        return None
                return _ceval(hb, last, byte, F, depth + 1, henv) if last is not None else None
        if any(v is None for v in vs):
            return None
        if len(vs) == 1 and isinstance(vs[0], int) and not isinstance(vs[0], bool):
            mm = __import__("re").match(r"^core::convert::num::.*<impl core::convert::TryFrom<\w+> for (\w+)>::try_from$", n)
            if mm:
                bits_ = {"u8": 8, "u16": 16, "u32": 32, "u64": 64, "usize": F.ptr_bits}.get(mm.group(1))
                return vs[0] if bits_ and vs[0] < (1 << bits_) else None      # Ok(v): the payload is v (None: would be Err)
            if n in ("core::result::Result::<T, E>::unwrap_unchecked", "core::result::Result::<T, E>::unwrap", "core::result::Result::<T, E>::expect", "core::option::Option::<T>::unwrap_unchecked"):
                return vs[0]
        if any(isinstance(v, _U) for v in vs) or not vs:
            return _U(describe(body, e))
        if n.startswith("core::num::<impl u") and leaf not in ("from_ne_bytes", "from_le_bytes", "from_be_bytes"):
            vs = [_word_or_bytes(v, "usize", F) if isinstance(v, tuple) and len(v) == F.ptr_bytes else v for v in vs]      # a word read from memory
        if n.startswith("core::num::<impl u"):
            bits = {"u8": 8, "usize": F.ptr_bits, "u32": 32, "u64": 64}.get(n[len("core::num::<impl "):].split(">")[0])
            if not bits:
                return None
            m = (1 << bits) - 1
            nb = bits // 8
            big = F.endian == "big"
            swap = lambda v: int.from_bytes(v.to_bytes(nb, "little"), "big")
            if len(vs) == 1 and isinstance(vs[0], int):
                if leaf == "to_le":
                    return swap(vs[0]) if big else vs[0]
                if leaf == "to_be":
                    return vs[0] if big else swap(vs[0])
                if leaf in ("from_le", "from_be"):
                    return (swap(vs[0]) if big else vs[0]) if leaf == "from_le" else (vs[0] if big else swap(vs[0]))
                if leaf == "swap_bytes":
                    return swap(vs[0])
                if leaf in ("to_ne_bytes", "to_le_bytes", "to_be_bytes"):
                    order = {"to_ne_bytes": "big" if big else "little", "to_le_bytes": "little", "to_be_bytes": "big"}[leaf]
                    return tuple(vs[0].to_bytes(nb, order))
            if len(vs) == 1 and isinstance(vs[0], tuple) and leaf in ("from_ne_bytes", "from_le_bytes", "from_be_bytes"):
                order = {"from_ne_bytes": "big" if big else "little", "from_le_bytes": "little", "from_be_bytes": "big"}[leaf]
                return int.from_bytes(bytes(vs[0]), order)
            if leaf == "wrapping_sub" and len(vs) == 2:
                return (vs[0] - vs[1]) & m
            if leaf == "wrapping_add" and len(vs) == 2:
                return (vs[0] + vs[1]) & m
            if leaf == "saturating_sub" and len(vs) == 2:
                return max(0, vs[0] - vs[1])
            if leaf == "saturating_add" and len(vs) == 2:
                return min(m, vs[0] + vs[1])
            if leaf == "wrapping_neg" and len(vs) == 1:
                return (-vs[0]) & m
        if leaf == "min" and len(vs) == 2 and ("cmp" in n or "Ord" in n):
            return min(vs)
        if leaf == "max" and len(vs) == 2 and ("cmp" in n or "Ord" in n):
            return max(vs)
        if leaf in ("from", "into") and len(vs) == 1:
            return vs[0]
        return None
    if k in ("field", "deref", "ref", "index", "agg", "phi"):
        return _U(describe(body, e))
    return None


def _width(body, e, F):
    """bit width of an integer expression, from the nearest typed node"""
    e = strip_refs(e)
    bits = {"u8": 8, "i8": 8, "u16": 16, "u32": 32, "u64": 64, "usize": F.ptr_bits, "isize": F.ptr_bits}
    if e[0] == "const":
        return bits.get(e[1], F.ptr_bits)
    if e[0] == "cast":
        return bits.get(e[3], F.ptr_bits)
    if e[0] in ("bin", "un"):
        return _width(body, e[2], F)
    if e[0] == "field" and e[1][0] == "bin":
        return _width(body, e[1][2], F)
    if e[0] in ("local", "mem", "param"):
        return bits.get(body.local_ty(e[1]), F.ptr_bits)
    if e[0] == "call":
        t = body.term(e[1])
        return bits.get(body.local_ty(t["dest"]["l"]), F.ptr_bits) if not t["dest"]["p"] else F.ptr_bits
    return F.ptr_bits


def _is_bool(body, e):
    e = strip_refs(e)
    if e[0] == "bin" and e[1] in ("Lt", "Le", "Gt", "Ge", "Eq", "Ne"):
        return True
    if e[0] == "const" and e[1] == "bool":
        return True
    return False


def rule_len_words(ctx, rule="T1-tags"):
    """The length word of a heap / static handle is written by TextLen::new, StaticBuffer::new and
    StaticBuffer::set_len and read back by TextLen::as_usize / StaticBuffer::len.  For the byte order
    of THIS target: reader(writer(len)) == len, and the last memory byte of the written word is the
    marker.  Writers and readers here are compositions of byte-order conversions and bitwise
    operations with constants, i.e. byte-wise affine maps: agreement on the words evaluated
    (zero, one, all-distinct bytes, the maximum) determines them for every length."""
    F = ctx.F
    nb = F.ptr_bytes
    hm, sm = F.enum_discr(LB, "HeapMarker"), F.enum_discr(LB, "StaticMarker")
    maxlen = F.const_scalar("repr::heap_buffer::internal::MAX_LEN")
    smax = F.const_scalar("repr::static_buffer::StaticBuffer::MAX_LENGTH")
    pairs = [("repr::heap_buffer::internal::TextLen::new", "p1", "repr::heap_buffer::internal::TextLen::as_usize", "p1.0", hm, maxlen, "repr::heap_buffer::internal::TextLen"),
             ("repr::static_buffer::StaticBuffer::new", "core::str::<impl str>::len(p1)", "repr::static_buffer::StaticBuffer::len", None, sm, smax, "repr::static_buffer::StaticBuffer"),
             ("repr::static_buffer::StaticBuffer::set_len", "p2", "repr::static_buffer::StaticBuffer::len", None, sm, smax, "repr::static_buffer::StaticBuffer")]
    # the word itself, or a private newtype around it
    words = {"usize"} | {p for p, a in F.adts.items() if len(a["variants"]) == 1 and len(a["variants"][0]["fields"]) == 1 and a["variants"][0]["fields"][0]["ty"].strip() == "usize"}
    for wfn, wvar, rfn, rvar, marker, mx, adt in pairs:
        wb, rb = F.bodies.get(wfn), F.bodies.get(rfn)
        ctx.need(rule, wfn, "anchor", wb is not None and rb is not None, "%s / %s not found" % (wfn, rfn))
        if not wb or not rb or mx is None or marker is None:
            continue
        # the written word: the usize field of the aggregate built / the usize stored through self
        wexprs = []
        for blk in wb.blocks:
            for s_ in blk["stmts"]:
                if s_["k"] != "assign":
                    continue
                rv = s_["rv"]
                if rv["k"] == "aggregate" and rv.get("adt") == adt:
                    for f in rv["fields"]:
                        e = wb.origin_operand(f)
                        if wvar in describe(wb, e):
                            wexprs.append(e)
                elif s_["lhs"]["p"] and s_["lhs"]["l"] == 1 and s_.get("lhs_ty") in words and wfn.endswith("set_len"):
                    wexprs.append(wb.origin_rvalue(rv))
        ctx.need(rule, wfn, "length-word", len(wexprs) == 1, "%s builds %d length words from its argument" % (wfn, len(wexprs)), how="one length word")
        if len(wexprs) != 1:
            continue
        rdefs = rb.defs.get(0, [])
        if len(rdefs) != 1:
            continue
        rexpr = ("call", rdefs[0][0]) if rdefs[0][1] == "term" else rb.origin_rvalue(rdefs[0][2])
        if rvar is None:
            # which field of self the reader looks at: the usize field
            adt_ = F.adts.get(adt)
            idx = [i for i, f in enumerate(adt_["variants"][0]["fields"]) if f["ty"].strip() in words] if adt_ else []
            rvar = "p1.%d" % idx[0] if idx else "p1.1"
        distinct = int.from_bytes(bytes(range(1, nb)) + b"\0", "little") & mx
        bad = []
        for ln_ in sorted({0, 1, 0xFF, 0x100, distinct, mx - 1, mx}):
            if ln_ > mx or ln_ < 0:
                continue
            w = _ceval(wb, wexprs[0], None, F, 0, None, {wvar: ln_})
            if not isinstance(w, int) or isinstance(w, bool):
                bad.append((ln_, "writer not evaluated (%r)" % (w,)))
                continue
            mem = w.to_bytes(nb, "big" if F.endian == "big" else "little")
            if mem[-1] != marker:
                bad.append((ln_, "last memory byte %#x, not the marker %#x" % (mem[-1], marker)))
                continue
            r = _ceval(rb, rexpr, None, F, 0, None, {rvar: w})
            if r != ln_:
                bad.append((ln_, "read back as %r" % (r,)))
        ctx.ob(rule, wfn, "length-word-round-trip", not bad, how="%s then %s gives the length back and puts the marker in the last memory byte (%s-endian words evaluated)" % (wfn.rsplit("::", 1)[-1], rfn.rsplit("::", 1)[-1], F.endian),
               detail="length %s written by %s: %s (%d of the evaluated words differ, %s-endian target)" % ((bad[0][0], wfn, bad[0][1], len(bad), F.endian) if bad else (0, wfn, "", 0, F.endian)))


def rule_T3(ctx, rule="T3-publish"):
    """every path from a write into string storage to a normal return passes set_len"""
    F = ctx.F
    n = 0
    for path, b in F.bodies.items():
        if path in VIEWS:
            continue
        if path not in anchors(F) and b.j["kind"] != "closure":
            # a private helper that did not exist on the reference tree (move_bytes(..)): its writes
            # are counted at its call sites, where the length is published
            continue
        views = [bb for bb, t in b.calls() if callee_name(t) in VIEWS or (t.get("local_key") and t["local_key"] not in anchors(F) and t["local_key"] in F.bodies and F.bodies[t["local_key"]].j["kind"] != "closure"
                                                                          and any(callee_name(t2) in VIEWS for _, _, t2 in inlined_calls(F.bodies[t["local_key"]])) and not _publishes_itself(F.bodies[t["local_key"]]))]
        if not views:
            continue
        n += 1
        writes = []
        for bb, t in b.calls():
            if (callee_name(t) in WRITE_CALLS or callee_name(t) in WRITE_PRIMS) and any(bb in b.reachable(v, unwind=False) for v in views):
                writes.append(bb)
            # a private helper (method of a small writer struct ...) that performs the write
            k = t.get("local_key")
            if k and k in F.bodies and k not in anchors(F) and any(bb in b.reachable(v, unwind=False) for v in views):
                if any((callee_name(t2) in WRITE_CALLS or callee_name(t2) in WRITE_PRIMS) for _, _, t2 in inlined_calls(F.bodies[k])) or _has_raw_store(F.bodies[k]):
                    if not _publishes_itself(F.bodies[k]):
                        writes.append(bb)
        for bb, blk in enumerate(b.blocks):
            for s in blk["stmts"]:
                if s["k"] == "assign" and s["lhs"]["p"] and s["lhs"]["p"][0] == "deref" and b.local_ty(s["lhs"]["l"]).startswith("*mut u8"):
                    if any(bb in b.reachable(v, unwind=False) for v in views):
                        writes.append(bb)
        pubs = set()
        for bb, t in b.calls():
            nme = callee_name(t)
            if nme == "repr::Repr::set_len":
                pubs.add(bb)
            if nme == "core::mem::drop" and t.get("generic_args"):
                # dropping a guard whose Drop publishes (checked by U2)
                ty = t["generic_args"][0]
                for i in F.impls:
                    if i["trait"] == "core::ops::drop::Drop" and i["self"].split("<")[0] == ty.split("<")[0]:
                        db = F.bodies.get(i["items"].get("drop"))
                        if db and any(callee_name(x) == "repr::Repr::set_len" for _, x in db.calls()):
                            pubs.add(bb)
        ctx.need(rule, path, "writes", bool(writes), "%s takes a mutable view but no write was recognised" % path, how="%d write site(s)" % len(writes))
        bad = []
        for w in sorted(set(writes)):
            # from the block after w: can we reach a return without passing a publish?
            reach = set()
            st = [s for s, lab in b.succ(w, unwind=False)]
            while st:
                x = st.pop()
                if x in reach or x in pubs:
                    continue
                reach.add(x)
                for s, lab in b.succ(x, unwind=False):
                    st.append(s)
            if any(b.term(x)["k"] == "return" for x in reach):
                bad.append(b.line(w))
        ctx.ob(rule, path, "publish-after-write", not bad, how="set_len (or the publishing guard) lies on every path from each of %d write(s) to return" % len(set(writes)),
               detail="bytes written at line(s) %s can reach `return` without a following set_len: the length is published before (or never after) the bytes are in place" % bad)
    ctx.need(rule, "crate", "mutators", n >= 4, "only %d bodies take a mutable view (push_str, insert_str, remove, retain and 10 integer writers expected)" % n, how="%d bodies take a mutable view" % n)


def _publishes_itself(hb):
    """a private writer that ends every normal path with its own set_len (it takes the view, writes and
    publishes: nothing is left for its caller to publish)"""
    pubs = {bb for bb, t in hb.calls() if callee_name(t) == "repr::Repr::set_len"}
    if not pubs:
        return False
    reach = hb.reachable(0, unwind=False, stop=lambda x: x in pubs)
    return not any(hb.term(x)["k"] == "return" and x not in pubs for x in reach) or all(
        any(hb.dominates(p, x) for p in pubs) or not _writes_before(hb, x) for x in range(hb.n) if hb.term(x)["k"] == "return")


def _writes_before(hb, ret):
    """is a write primitive / raw store able to reach this return without passing a set_len?"""
    pubs = {bb for bb, t in hb.calls() if callee_name(t) == "repr::Repr::set_len"}
    ws = [bb for bb, t in hb.calls() if callee_name(t) in WRITE_PRIMS or callee_name(t) in WRITE_CALLS]
    for bb, blk in enumerate(hb.blocks):
        for s_ in blk["stmts"]:
            if s_["k"] == "assign" and s_["lhs"]["p"] and s_["lhs"]["p"][-1] == "deref" and hb.local_ty(s_["lhs"]["l"]).startswith("*mut u8"):
                ws.append(bb)
    for w in ws:
        if ret in hb.reachable(w, unwind=False, stop=lambda x: x in pubs and x != w):
            return True
    return False


def _has_raw_store(b):
    for blk in b.blocks:
        for s in blk["stmts"]:
            if s["k"] == "assign" and s["lhs"]["p"] and s["lhs"]["p"][-1] == "deref" and b.local_ty(s["lhs"]["l"]).startswith("*mut u8"):
                return True
            if s["k"] == "assign" and s["lhs"]["p"] and "deref" in s["lhs"]["p"] and s.get("lhs_ty") == "u8":
                return True
    return False


def rule_T4(ctx, rule="T4-inline-bound"):
    """InlineBuffer::new(text): len(text) <= MAX_INLINE_SIZE at every call site, by one of the enumerated idioms"""
    F = ctx.F
    M = F.const_scalar("repr::MAX_INLINE_SIZE")
    n = 0
    for path, root in F.bodies.items():
        if path not in anchors(F) or root.j["kind"] == "closure":
            continue
        for st in inlined_sites(root, lambda nm: nm == "repr::inline_buffer::InlineBuffer::new"):
            n += 1
            text = st.desc(0)
            gs = [g for g in st.guards() if g[0] == "cmp" and g[3] is not None and g[3] <= M and g[2] is None]
            how = None
            for g in gs:
                d = g[1]
                if d == "core::str::<impl str>::len(%s)" % text:
                    how = "guard len(text) <= %d" % g[3]
                elif text == "repr::Repr::as_str(p1)" and "checked_add(repr::Repr::len(p1), " in d:
                    how = "guard len(self) + additional <= %d (checked sum >= len)" % g[3]
                elif text.startswith("repr::heap_buffer::HeapBuffer::as_str(") and re.match(r"^core::cmp::Ord::max\(repr::heap_buffer::HeapBuffer::len\(", d):
                    how = "guard max(len, min) <= %d" % g[3]
            if how is None and text.startswith("core::char::methods::<impl char>::encode_utf8("):
                how = "a char's UTF-8 encoding (<= 4 bytes)"
            if how is None and text.startswith("const:"):
                e = strip_refs(st.body.origin_operand(st.t["args"][0]))
                if e[0] == "const":
                    how = "string literal"
            ctx.ob(rule, path, st.label(), how is not None, how=how or "", line=st.line,
                   detail="InlineBuffer::new(%s) is not dominated by a proof that the text fits %d bytes (guards: %s)" % (text, M, [(g[1][:60], g[3]) for g in gs]))
    ctx.need(rule, "crate", "sites", n >= 5, "only %d InlineBuffer::new call sites" % n, how="%d InlineBuffer::new call sites" % n)


def rule_T5(ctx, rule="T5-full-inline"):
    """InlineBuffer::set_len stores the tag byte only when len < MAX_INLINE_SIZE (a full inline
    string's last byte is text)"""
    F = ctx.F
    M = F.const_scalar("repr::MAX_INLINE_SIZE")
    b = F.bodies.get("repr::inline_buffer::InlineBuffer::set_len")
    if not b:
        ctx.need(rule, "repr::inline_buffer::InlineBuffer::set_len", "anchor", False, "InlineBuffer::set_len not found")
        return
    for (bb, _i, _v, s, _base) in _indexed_stores(b):
            if True:
                gs = guards_at(b, bb)
                ok = any(g[0] == "cmp" and g[3] == M - 1 and g[2] is None and strip_refs(g[1]) == ("param", 2) for g in gs)
                ctx.ob(rule, b.path, "tag-store-guard", ok, how="tag byte written only when len < %d" % M, line=s.get("line", 0),
                       detail="InlineBuffer::set_len writes the tag byte without `len < %d`: at len == %d it overwrites the last text byte (readers then see a %d-byte string as something else)" % (M, M, M))


def rule_niche(ctx, rule="C20-niche"):
    F = ctx.F
    W = F.ptr_bytes
    for ty in ("LeanString", "repr::Repr"):
        l = F.layouts.get(ty)
        o = F.layouts.get("core::option::Option<%s>" % ty)
        ctx.need(rule, ty, "layout", l is not None and o is not None, "layout of %s missing" % ty)
        if not l or not o:
            continue
        ctx.ob(rule, ty, "two-words", l["size"] == 2 * W and l["align"] == W, how="size %d align %d" % (l["size"], l["align"]), detail="%s is %d bytes aligned %d (expected %d/%d)" % (ty, l["size"], l["align"], 2 * W, W))
        ctx.ob(rule, ty, "option-two-words", o["size"] == 2 * W and o["align"] == W, how="Option<%s> size %d" % (ty, o["size"]), detail="Option<%s> is %d bytes" % (ty, o["size"]))
        n = l.get("niche")
        hm = F.enum_discr(LB, "HeapMarker")
        sm = F.enum_discr(LB, "StaticMarker")
        ok = n is not None and n["offset"] == 2 * W - 1 and n["size"] == 1 and n["lo"] == 0 and n["hi"] == sm
        ctx.ob(rule, ty, "niche-at-last-byte", ok, how="niche at byte %d, valid range 0..=%#x" % (2 * W - 1, sm or 0), detail="niche of %s is %s" % (ty, n))
    adt = F.adts.get(LB)
    if adt:
        ds = sorted(v["discr"] for v in adt["variants"])
        sm = F.enum_discr(LB, "StaticMarker")
        ctx.ob(rule, LB, "discriminants-contiguous", ds == list(range(0, (sm or 0) + 1)), how="LastByte = 0x00..=%#x contiguous (%d variants)" % (sm or 0, len(ds)), detail="LastByte discriminants are not exactly 0..=StaticMarker (%d variants, max %#x)" % (len(ds), max(ds)))
        # every byte the crate can store in the last position is a valid discriminant:
        M = F.const_scalar("repr::MAX_INLINE_SIZE")
        mask = F.const_scalar(LB + "::MASK_1100_0000")
        stored = set(range(0x00, 0xC0)) | {mask | i for i in range(M)} | {F.enum_discr(LB, "HeapMarker"), sm}
        bad = sorted(x for x in stored if x not in set(ds))
        ctx.ob(rule, LB, "stored-bytes-valid", not bad, how="all %d storable last bytes (UTF-8 finals < 0xC0, 0xC0|len for len < %d, markers) are valid LastByte values: Some(s) can never alias None" % (len(stored), M),
               detail="bytes %s can be stored in the last position but are niche values" % [hex(x) for x in bad[:4]])
