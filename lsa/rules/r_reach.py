"""R-reach / R-guard rules for C08, C09, C10, C11."""
import re
from facts import callee_name, strip_refs
from guards import guards_at, describe, eval_int, dominating_edges, peel_ptr, callers_of, anchors, inlined_calls, inlined_sites, described_guards, must_pass_call
from callgraph import ALLOC_SITES, RELEASE_SITES, BORROW_ONLY_LEAVES
from typestate import Solver, entry_tuples, T, READ_PRIMS, WRITE_PRIMS

HEAP_MOD = "repr::heap_buffer::"

COPY_LEAVES = ("core::ptr::copy", "core::ptr::copy_nonoverlapping", "core::intrinsics::copy", "core::intrinsics::copy_nonoverlapping",
               "core::slice::<impl [T]>::copy_from_slice", "core::slice::<impl [T]>::clone_from_slice", "core::ptr::write_bytes")
WRITE_LEAVES = COPY_LEAVES + ("core::ptr::write", "core::char::methods::<impl char>::encode_utf8", "core::ptr::mut_ptr::<impl *mut T>::write") + tuple(WRITE_PRIMS)
COPY_LEAVES = COPY_LEAVES + tuple(k for k in WRITE_PRIMS if "copy" in k)

# bodies whose job is to produce a std String (outside every LeanString property)
STRING_PRODUCERS = {
    "<alloc::string::String as core::convert::From<LeanString>>::from": "converts into a String",
    "<alloc::string::String as core::convert::From<&LeanString>>::from": "converts into a String",
    "<alloc::string::String as core::iter::traits::collect::Extend<LeanString>>::extend": "appends to a String",
}


def mis(F):
    return F.const_scalar("repr::MAX_INLINE_SIZE")


def clone_roots(ctx):
    F = ctx.F
    roots = {}
    for i in F.impls:
        if i["self"] == "LeanString" and i["trait"] == "core::clone::Clone":
            for nm, k in i["items"].items():
                roots[nm] = k
        if i["self"] == "LeanString" and i["trait"] == "core::convert::From" and i["trait_args"] and "LeanString" in i["trait_args"][0] and i["trait_args"][0].startswith("&"):
            roots["from_ref"] = i["items"].get("from")
    roots["make_shallow_clone"] = "repr::Repr::make_shallow_clone"
    return roots


# ----------------------------------------------------------------------------- C08
def rule_clone_replaces(ctx, roots=None, rule="C08-clone_from"):
    """clone_from replaces the target by a shallow clone of the source on EVERY path (handles that
    share a buffer or a static text can still differ in length), and clone() is the shallow clone"""
    F = ctx.F
    if roots is None:
        roots = {}
        for i in F.impls:
            if i["self"] == "LeanString" and i["trait"] == "core::clone::Clone":
                roots = dict(i["items"])
    # clone_from really replaces the target by a shallow clone of the source on every path
    cf = roots.get("clone_from")
    if cf and cf in F.bodies:
        b = F.bodies[cf]
        ctx.ob(rule, cf, "must-replace", must_pass_call(b, {"repr::Repr::replace_inner"}), how="every path through clone_from passes replace_inner(self, shallow clone of source)",
               detail="a path through clone_from returns without replacing the target: the target is not a copy of the source afterwards (e.g. handles that share a buffer but carry different lengths)")
        for st in inlined_sites(b, lambda nm: nm == "repr::Repr::replace_inner"):
            a0, a1 = st.desc(0), st.desc(1)
            ctx.ob(rule, cf, "replace-args", a0 == "p1.0" and a1 in ("repr::Repr::make_shallow_clone(p2.0)",), how="replace_inner(&mut self.0, source.0.make_shallow_clone())",
                   detail="clone_from replaces %s by %s" % (a0, a1))
    cl = roots.get("clone")
    if cl and cl in F.bodies:
        b = F.bodies[cl]
        ds = [describe(b, ("call", bb) if si == "term" else b.origin_rvalue(x)) for (bb, si, x) in b.defs.get(0, [])]
        ctx.ob(rule, cl, "clone=shallow", ds == ["LeanString::LeanString{repr::Repr::make_shallow_clone(p1.0)}"], how="clone() = LeanString(self.0.make_shallow_clone())", detail="clone() returns %s" % ds)


def rule_C08(ctx):
    F, cg = ctx.F, ctx.cg
    roots = clone_roots(ctx)
    for want in ("clone", "clone_from", "from_ref", "make_shallow_clone"):
        k = roots.get(want)
        ctx.need("C08-anchor", "LeanString", want, k is not None and k in F.bodies, "clone path `%s` not found (impl removed or renamed)" % want)
    for want, root in roots.items():
        if not root or root not in F.bodies:
            continue
        seen, leaves, users, parent = cg.reach([root])
        alloc = [e for e in leaves if e.name in ALLOC_SITES]
        ctx.ob("C08-noalloc", root, "alloc-site", not alloc, how="no allocation site among %d reachable bodies / %d leaf calls" % (len(seen), len(leaves)),
               detail="allocation reachable from a clone path: %s" % "; ".join("%s in %s:%d" % (e.name, e.src, e.line) for e in alloc[:3]))
        foreign = [e for e in leaves if e.crate not in ("core",) and e.name not in RELEASE_SITES]
        ctx.ob("C08-leaves", root, "leaf-crates", not foreign, how="all leaves in core or alloc::alloc::dealloc",
               detail="clone path calls outside core/dealloc: %s" % "; ".join("%s in %s:%d" % (e.name, e.src, e.line) for e in foreign[:4]))
        ctx.ob("C08-nouser", root, "user-edges", not users, how="no unresolved / user-code edge",
               detail="user-code edge on a clone path: %s" % "; ".join("%s in %s:%d" % (e.name, e.src, e.line) for e in users[:3]))
        # copies inside the inline-buffer module move at most the two handle words (e.g. the empty
        # replacement built by the overflow path), never heap text
        copies = [e for e in leaves if e.name in COPY_LEAVES and not e.src.startswith("repr::inline_buffer::")]
        heapctor = [s for s in seen if s.startswith(HEAP_MOD + "HeapBuffer::") and s.rsplit("::", 1)[1] in ("new", "with_capacity", "with_additional", "with_exact_capacity", "allocate_ptr", "realloc")]
        textsrc = [s for s in seen if s in ("repr::Repr::from_str", "repr::Repr::as_str", "repr::Repr::as_bytes", "LeanString::as_str")]
        ctx.ob("C08-nocopy", root, "text-copy", not copies and not heapctor and not textsrc, how="no copy primitive, heap constructor or text view reachable",
               detail="clone path can copy text: %s" % ", ".join([e.name + " in " + e.src for e in copies[:3]] + heapctor[:3] + textsrc[:3]))
    rule_clone_replaces(ctx, roots)
    # the value returned by make_shallow_clone is a bitwise read of the receiver on every path
    b = F.bodies.get("repr::Repr::make_shallow_clone")
    if b:
        ok, why = True, ""
        ds = b.defs.get(0, [])
        for (bb, si, x) in ds:
            if si != "term" or callee_name(x) not in READ_PRIMS:
                ok, why = False, "return value assigned from something other than ptr::read"
            else:
                a = peel_ptr(b, b.origin_operand(x["args"][0]))
                if a != ("param", 1):
                    ok, why = False, "ptr::read of something other than the receiver (%s)" % describe(b, a)
        ctx.ob("C08-bitwise", b.path, "return-is-ptr-read(self)", ok and bool(ds), how="return place = core::ptr::read(self) at %d site(s)" % len(ds), detail=why or "no definition of the return place")


# ----------------------------------------------------------------------------- C09
GATE_ROOT = {
    # gate function -> (regex over describe(root), meaning)
    "repr::Repr::from_str": (r"^core::str::<impl str>::len\(p1\)$", "len(text)"),
    "repr::Repr::with_capacity": (r"^p1$", "requested capacity"),
    "repr::Repr::reserve": (r"checked_add\(repr::Repr::len\(p1\), p2\)", "len(self) + additional (checked)"),
    "repr::Repr::shrink_to": (r"^core::cmp::Ord::max\(repr::heap_buffer::HeapBuffer::len\(.*p1.*\), p2\)$", "max(len, min_capacity)"),
    "repr::Repr::from_static_str": (r"^core::str::<impl str>::len\(p1\)$", "len(text)"),
}


def heap_gate_sites(ctx):
    """call sites outside the heap_buffer module that enter an allocating heap_buffer function"""
    F, cg = ctx.F, ctx.cg
    out = []
    for path, b in F.bodies.items():
        if path.startswith(HEAP_MOD):
            continue
        for bb, t in b.calls():
            k = t.get("local_key")
            if k and k.startswith(HEAP_MOD) and cg.may_allocate(k):
                out.append((b, bb, t))
    return out


def site_name(body, bb):
    t = body.term(bb)
    n = callee_name(t)
    c = sum(1 for i in range(bb) if body.term(i)["k"] == "call" and callee_name(body.term(i)) == n)
    return "%s#%d" % (n, c)


def _of_repr(body, base):
    """the place is (a view of) a Repr / LeanString handle"""
    b = strip_refs(base)
    for _ in range(6):
        if b[0] in ("ref", "rawptr"):
            b = strip_refs(b[2])
        elif b[0] == "deref":
            b = strip_refs(b[1])
        elif b[0] == "field":
            if len(b) > 3 and b[3] and ("repr::Repr" in b[3]):
                return True
            b = strip_refs(b[1])
        else:
            break
    if b[0] in ("param", "mem", "local"):
        ty = body.local_ty(b[1]) or ""
        return "repr::Repr" in ty or "LeanString" in ty
    return b[0] == "call"      # a view returned by a call: keep the old (conservative) behaviour


def nonheap_reached(ctx):
    """(function, call site) pairs executed on some feasible path of an API call whose receiver is
    inline or static (typestate walks of every exported root from kinds I and S)"""
    if getattr(ctx, "_nonheap", None) is not None:
        return ctx._nonheap
    import proto
    F = ctx.F
    S = Solver(F)
    reached = set()
    for path, body in F.bodies.items():
        fn = F.fns.get(path, {})
        if not fn.get("exported") or body.j.get("safety") == "unsafe":
            continue
        for (i, bt) in proto.tracked_params(body):
            if bt not in ("LeanString", "repr::Repr"):
                continue
            for k in ("I", "S"):
                t0 = T(kind=k, uniq=False, ref="own", acq=False, inc=0, asg=False, dirty=False, ret=None, facts=frozenset())
                res, ev = S.walk(body, ("param", i), t0)
                for (f2, site, callee, key, desc, line, kinds, crate) in ev:
                    # the receiver's kind *at the call* (a walk that starts inline may have grown
                    # to the heap by then)
                    if "I" in kinds or "S" in kinds:
                        reached.add((f2, site.split("/")[0]))
    ctx._nonheap = reached
    return reached


def rule_C09_gates(ctx, rule="C09-gate"):
    F, cg = ctx.F, ctx.cg
    M = mis(F)
    ctx.need(rule, "repr::MAX_INLINE_SIZE", "const", M == 2 * F.ptr_bytes, "MAX_INLINE_SIZE evaluates to %s, expected two machine words (%d)" % (M, 2 * F.ptr_bytes), how="MAX_INLINE_SIZE = %s = 2 words" % M)
    reached = nonheap_reached(ctx)
    is_gate = lambda n: n.startswith(HEAP_MOD) and n in F.bodies and cg.may_allocate(n)
    seen_sites = set()
    n_sites = 0
    for path, root in F.bodies.items():
        if path.startswith(HEAP_MOD) or path not in anchors(F) or root.j["kind"] == "closure":
            continue
        for st in inlined_sites(root, is_gate):
            key = (st.body.path, st.bb)
            if key in seen_sites and len(st.chain) > 1:
                pass
            seen_sites.add(key)
            n_sites += 1
            label = st.label()
            gs = st.guards()
            b0, bb0 = st.chain[0]
            # heap-only: neither the site nor the call leading to it is executed for an inline/static receiver
            # (a function with no string receiver - a constructor - is not "heap only": it runs for every size)
            import proto
            has_recv = any(bt in ("LeanString", "repr::Repr") for _, bt in proto.tracked_params(b0))
            heap_only = has_recv and all((b.path, site_name(b, bb)) not in reached for b, bb in st.chain if b.j["kind"] != "closure") and any(
                b.path.startswith("repr::Repr::") or b.path.startswith("LeanString::") for b, _ in st.chain)
            under_heap = heap_only or any(g[0] == "pred" and g[1] == "repr::Repr::is_heap_buffer" and g[3] is True and g[2] == "p1" for g in gs)
            thr = [g for g in gs if g[0] == "cmp" and g[2] is not None and g[3] is None]
            if under_heap and not [g for g in thr if g[2] == M + 1]:
                ctx.ob(rule, path, label, True, how="only reached for a heap receiver (text already on the heap)", line=st.line)
                continue
            good = [g for g in thr if g[2] == M + 1]
            if not good:
                got = "; ".join("%s >= %s" % (g[1], g[2]) for g in thr) or "no threshold guard"
                ctx.ob(rule, path, label, False, line=st.line,
                       detail="allocating call %s is reachable for an inline/static receiver and is not behind the exact inline threshold (> %d): %s" % (st.name, M, got))
                continue
            pat = GATE_ROOT.get(path)
            if pat is None:
                ctx.ob("unclassified", path, "gate:" + label, False, line=st.line, detail="new allocation gate outside the table: %s guarded on %s" % (st.name, good[0][1]))
                continue
            ctx.ob(rule, path, label, any(re.search(pat[0], g[1]) for g in good), how="guard `%s > %d` on %s" % (pat[1], M, good[0][1][:80]), line=st.line,
                   detail="inline-threshold guard compares the wrong quantity: %s (expected %s)" % (good[0][1], pat[1]))
    ctx.need(rule, "crate", "gate-sites", n_sites >= 6, "only %d allocation gate sites found" % n_sites, how="%d gate sites" % n_sites)


def rule_C09_no_other_alloc(ctx, rule="C09-onlygate"):
    """outside the heap_buffer module nothing allocates directly"""
    F, cg = ctx.F, ctx.cg
    n = 0
    for path, b in F.bodies.items():
        import re as _re
        isf = ctx.F.fns.get(_re.sub(r"(::\{closure#\d+\})+$", "", path), {}).get("impl_self") or ""   # (a closure belongs to the impl of the function it is written in)
        if path.startswith(HEAP_MOD) or isf == "alloc::string::String" or (isf and isf.split("<")[0] not in F.adts and isf.split("<")[0].split("::")[0] in ("alloc", "std", "core")):
            # impls *for String* (From<LeanString> for String, Extend<LeanString> for String)
            # produce a std String: outside every LeanString property
            continue
        outty = (ctx.F.fns.get(_re.sub(r"(::\{closure#\d+\})+$", "", path), {}).get("output") or "").strip()
        if outty.startswith(("alloc::string::String", "alloc::boxed::Box<str", "alloc::vec::Vec<u8", "alloc::borrow::Cow<")):
            # a conversion whose result is a std container (`to_std_string(&self) -> String`): what it
            # allocates is that container, not storage of a LeanString
            continue
        bad = []
        for e in cg.out[path]:
            if e.kind in ("leaf", "mono-leaf"):
                if e.name in ALLOC_SITES or (e.crate in ("alloc", "std") and e.name not in RELEASE_SITES and e.name not in BORROW_ONLY_LEAVES and not _borrow_like(e.name)):
                    bad.append(e)
        # a core-crate generic instantiated with a std container builds one: `iter.collect::<String>()`,
        # `x.into()` / `From::from` to String / Vec / Box
        class _E:
            pass
        for bb, t in b.calls():
            nm = callee_name(t)
            if nm.startswith("core::") and not t.get("local_key") and nm.rsplit("::", 1)[-1] in ("collect", "into", "from", "from_iter", "to_owned", "unzip", "sum", "product", "try_collect", "collect_into"):
                ga = [g for g in (t.get("generic_args") or []) if g.strip().startswith(("alloc::string::String", "alloc::vec::Vec<", "alloc::boxed::Box<", "alloc::collections::", "std::collections::"))]
                if ga:
                    e = _E()
                    e.name, e.line = "%s::<%s>" % (nm, ga[0]), t.get("line") or 0
                    bad.append(e)
        if bad:
            ctx.ob(rule, path, "direct-alloc", False, detail="allocating library call outside the heap buffer module: %s" % "; ".join("%s (line %d)" % (e.name, e.line) for e in bad[:3]))
        else:
            n += 1
    ctx.ob(rule, "crate", "bodies-without-direct-alloc", True, how="%d bodies outside repr::heap_buffer have no allocating leaf call" % n)
    # inside the module: the allocator is called from exactly the audited functions
    callers = {}
    for path, b in F.bodies.items():
        for e in cg.out[path]:
            if e.kind == "leaf" and (e.name in ALLOC_SITES or e.name in RELEASE_SITES):
                # a private helper that did not exist on the reference tree stands for the audited
                # function(s) it is reached from
                from guards import anchors, anchor_callers
                if path in anchors(F):
                    callers.setdefault(e.name, set()).add(path)
                else:
                    callers.setdefault(e.name, set()).update(anchor_callers(F, path) or {path})
    expect = {"alloc::alloc::alloc": {HEAP_MOD + "HeapBuffer::allocate_ptr"}, "alloc::alloc::realloc": {HEAP_MOD + "HeapBuffer::realloc"},
              "alloc::alloc::dealloc": {HEAP_MOD + "HeapBuffer::dealloc"}}
    for nm, want in expect.items():
        got = callers.get(nm, set())
        ctx.ob(rule, "crate", "callers-of:" + nm, got == want, how="only %s" % sorted(want), detail="%s is called from %s (audited set: %s)" % (nm, sorted(got), sorted(want)))


def _borrow_like(name):
    return name.endswith("::deref") or name.endswith("::as_ref") or name.endswith("::borrow") or name.endswith("::as_str") or name.endswith("::as_bytes") or "drop_in_place" in name


def _walk(ctx, root, kind, uniq=False):
    S = Solver(ctx.F)
    b = ctx.F.bodies[root]
    t0 = T(kind=kind, uniq=uniq, ref="own", acq=False, inc=0, asg=False, dirty=False, ret=None, facts=frozenset())
    res, ev = S.walk(b, ("param", 1), t0)
    return res, ev


def _alloc_events(ctx, ev):
    cg = ctx.cg
    bad = []
    for (fn, site, callee, key, desc, line, kinds, crate) in ev:
        if desc:
            continue
        if key:
            if cg.may_allocate(key):
                bad.append((fn, site, callee, line))
        elif callee in ALLOC_SITES or (crate in ("alloc", "std") and callee not in RELEASE_SITES and callee not in BORROW_ONLY_LEAVES and not _borrow_like(callee)):
            bad.append((fn, site, callee, line))
    return bad


def rule_C09_inline_edits(ctx, rule="C09-inline"):
    """Under kind=Inline the shrinking edits reach no allocation; the growing ones only the
    threshold-guarded gate inside reserve."""
    F = ctx.F
    M = mis(F)
    shr = ["repr::Repr::pop", "repr::Repr::remove", "repr::Repr::retain", "repr::Repr::truncate", "LeanString::clear"]
    grow = ["repr::Repr::push_str", "repr::Repr::insert_str"]
    for r in shr + grow:
        ctx.need(rule, r, "anchor", r in F.bodies, "entry point %s not found" % r)
        if r not in F.bodies:
            continue
        res, ev = _walk(ctx, r, "I")
        bad = _alloc_events(ctx, ev)
        if r in grow:
            # allowed: the threshold-guarded gate(s) of Repr::reserve (judged by C09-gate, also when the
            # allocating call sits in a helper reserve calls)
            rb = F.bodies.get("repr::Repr::reserve")
            guarded = set()
            if rb:
                for st in inlined_sites(rb, lambda n: n.startswith(HEAP_MOD)):
                    if any(g[0] == "cmp" and g[2] == M + 1 and g[3] is None for g in st.guards()):
                        for b2, bb2 in st.chain:
                            guarded.add((b2.path, site_name(b2, bb2)))
            bad = [(fn, site, callee, line) for (fn, site, callee, line) in bad if (fn, site.split("/")[0]) not in guarded]
        ctx.ob(rule, r, "inline-walk", not bad, how="%d calls on feasible inline paths, none can allocate%s" % (len(ev), " outside the guarded gate" if r in grow else ""),
               detail="editing an inline string can allocate: %s" % "; ".join("%s in %s (line %d)" % (c, f, l) for f, s, c, l in bad[:3]))


def _bb_of_site(body, site):
    for bb, t in body.calls():
        if site_name(body, bb) == site.split("/")[0]:
            return bb
    return None


def rule_C09_one_alloc(ctx, rule="C09-onealloc"):
    F = ctx.F
    b = F.bodies.get(HEAP_MOD + "HeapBuffer::new")
    ctx.need(rule, HEAP_MOD + "HeapBuffer::new", "anchor", b is not None, "HeapBuffer::new not found")
    if b:
        sites = inlined_sites(b, lambda nm: nm == HEAP_MOD + "HeapBuffer::allocate_ptr")
        ok = len(sites) == 1 and not any(_in_cycle(x, bb) for x, bb in sites[0].chain)
        ctx.ob(rule, b.path, "one-allocate_ptr", ok, how="exactly one allocate_ptr call, not in a loop", detail="HeapBuffer::new has %d allocate_ptr call sites (or one in a loop)" % len(sites))
        if len(sites) == 1:
            d = sites[0].desc(0)
            good = re.search(r"Capacity::new\(core::str::<impl str>::len\(p1\)\)", d) is not None
            ctx.ob(rule, b.path, "capacity=len(text)", good, how="capacity operand = ok(Capacity::new(len(text)))", detail="HeapBuffer::new allocates with capacity %s, not the text length" % d)
        extra = [st.name for st in inlined_sites(b, lambda nm: nm == HEAP_MOD + "amortized_growth")]
        ctx.ob(rule, b.path, "no-growth-rule", not extra, how="no amortized_growth in the exact constructor", detail="HeapBuffer::new applies the growth rule")
    a = F.bodies.get(HEAP_MOD + "HeapBuffer::allocate_ptr")
    ctx.need(rule, HEAP_MOD + "HeapBuffer::allocate_ptr", "anchor", a is not None, "allocate_ptr not found")
    if a:
        sites = [bb for bb, t in a.calls() if callee_name(t) in ALLOC_SITES]
        ctx.ob(rule, a.path, "one-alloc", len(sites) == 1 and not _in_cycle(a, sites[0]), how="exactly one allocator call", detail="allocate_ptr has %d allocator call sites" % len(sites))


def _in_cycle(body, bb):
    for s, _ in body.succ(bb):
        if bb in body.reachable(s):
            return True
    return False


def rule_C09_funnel(ctx, rule="C09-funnel"):
    """constructors reach allocation only through the gates Repr::from_str / Repr::with_capacity"""
    F, cg = ctx.F, ctx.cg
    gates = {"repr::Repr::from_str", "repr::Repr::with_capacity", "repr::Repr::reserve", "repr::Repr::shrink_to", "repr::Repr::ensure_modifiable", "repr::Repr::truncate_unchecked"}
    ctors = []
    for i in F.impls:
        if i["self"] == "LeanString" and i["trait"] in ("core::convert::From", "core::str::traits::FromStr"):
            for nm, k in i["items"].items():
                if k in F.bodies:
                    ctors.append(k)
    for k in ("LeanString::from_utf8", "LeanString::new", "repr::Repr::from_char", "repr::Repr::from_bool", "LeanString::from_static_str"):
        if k in F.bodies:
            ctors.append(k)
    ctors += [k for k in F.bodies if k.endswith("NumToRepr>::into_repr")]
    ctx.need(rule, "crate", "constructors", len(ctors) >= 20, "only %d constructor bodies found" % len(ctors), how="%d constructor bodies" % len(ctors))
    for k in ctors:
        # follow edges but stop at gates; nothing allocating may remain
        seen, leaves, users, parent = cg.reach([k], follow=lambda e: not (e.target in gates))
        inside = [s for s in seen if s.startswith(HEAP_MOD) and cg.may_allocate(s)]
        direct = [e for e in leaves if e.name in ALLOC_SITES]
        ctx.ob(rule, k, "alloc-only-via-gate", not inside and not direct, how="every path to the allocator passes Repr::from_str / Repr::with_capacity",
               detail="constructor reaches the heap module around the gates: %s" % (inside[:3] + [e.name for e in direct[:2]]))
    for k in ("repr::Repr::from_char", "repr::Repr::from_bool", "LeanString::new", "repr::Repr::new"):
        if k in F.bodies:
            bad = cg.may_allocate(k)
            ctx.ob(rule, k, "never-allocates", not bad, how="no allocation site reachable", detail="%s can allocate: %s" % (k, [e.name for e in bad[:2]]))


def rules_C09(ctx):
    rule_C09_gates(ctx)
    rule_C09_no_other_alloc(ctx)
    rule_C09_inline_edits(ctx)
    rule_C09_one_alloc(ctx)
    rule_C09_funnel(ctx)


# ----------------------------------------------------------------------------- C10
def _strip_casts(e):
    e = strip_refs(e)
    while e[0] == "cast":
        e = strip_refs(e[2])
    return e


def rule_C10(ctx):
    F, cg = ctx.F, ctx.cg
    M = mis(F)
    for r in ("repr::Repr::from_static_str", "LeanString::from_static_str", "repr::static_buffer::StaticBuffer::new"):
        ctx.need("C10-anchor", r, "anchor", r in F.bodies, "%s not found" % r)
        if r in F.bodies:
            bad = cg.may_allocate(r)
            seen, leaves, users, parent = cg.reach([r])
            copies = [e for e in leaves if e.name in COPY_LEAVES and not e.src.startswith("repr::inline_buffer::")]
            ctx.ob("C10-noalloc", r, "alloc-site", not bad, how="no allocation site reachable (%d bodies)" % len(seen), detail="from_static_str path can allocate: %s" % [e.name + " in " + e.src for e in bad[:3]])
            ctx.ob("C10-nocopy-long", r, "copy-outside-inline", not copies, how="text copied only by InlineBuffer::new (<= %d bytes)" % M, detail="static text copied: %s" % [e.name + " in " + e.src for e in copies[:3]])
    # the static gate: StaticBuffer::new only behind len(text) > MAX_INLINE_SIZE
    b = F.bodies.get("repr::Repr::from_static_str")
    if b:
        for bb, t in b.calls():
            if callee_name(t) == "repr::static_buffer::StaticBuffer::new":
                gs = guards_at(b, bb)
                good = [g for g in gs if g[0] == "cmp" and g[2] == M + 1 and g[3] is None and re.search(GATE_ROOT[b.path][0], describe(b, g[1]))]
                ctx.ob("C10-gate", b.path, site_name(b, bb), bool(good), how="StaticBuffer::new behind len(text) > %d" % M, line=t.get("line", 0),
                       detail="borrowing gate is not `len(text) > %d`: %s" % (M, [(describe(b, g[1]), g[2], g[3]) for g in gs if g[0] == "cmp"]))
            if callee_name(t) == "repr::inline_buffer::InlineBuffer::new":
                gs = guards_at(b, bb)
                good = [g for g in gs if g[0] == "cmp" and g[3] == M and g[2] is None]
                ctx.ob("C10-gate", b.path, site_name(b, bb), bool(good), how="InlineBuffer::new behind len(text) <= %d" % M, line=t.get("line", 0),
                       detail="inline copy of a static text is not behind `len(text) <= %d`" % M)
    # the pointer stored is the caller's
    sb = F.bodies.get("repr::static_buffer::StaticBuffer::new")
    if sb:
        found = False
        for bb, blk in enumerate(sb.blocks):
            for s in blk["stmts"]:
                if s["k"] == "assign" and s["rv"]["k"] == "aggregate" and s["rv"].get("adt") == "repr::static_buffer::StaticBuffer":
                    found = True
                    # whichever field holds the pointer, and whatever pointer wrapper it is kept in
                    # (NonNull, *const u8, *mut u8): it is the caller's text.as_ptr()
                    from guards import peel_ptr
                    pf = [f for f in s["rv"]["fields"] if describe(sb, peel_ptr(sb, _strip_casts(sb.origin_operand(f)))) == "core::str::<impl str>::as_ptr(p1)"]
                    d = [describe(sb, sb.origin_operand(f)) for f in s["rv"]["fields"]]
                    good = len(pf) == 1
                    ctx.ob("C10-borrow", sb.path, "ptr-field", good, how="ptr = NonNull::new_unchecked(text.as_ptr() as *mut _)", detail="StaticBuffer stores pointer %s, not the caller's text pointer" % d)
        ctx.need("C10-borrow", sb.path, "aggregate", found, "StaticBuffer aggregate not found in StaticBuffer::new")
    # under kind=Static: no allocation, no store through the pointer
    for r in ("repr::Repr::make_shallow_clone", "repr::Repr::pop", "repr::Repr::truncate", "LeanString::clear", "repr::Repr::shrink_to",
              "repr::Repr::len", "repr::Repr::capacity", "repr::Repr::as_bytes", "repr::Repr::as_str", "repr::Repr::is_unique"):
        ctx.need("C10-anchor", r, "anchor", r in F.bodies, "%s not found" % r)
        if r not in F.bodies:
            continue
        res, ev = _walk(ctx, r, "S")
        bad = _alloc_events(ctx, ev)
        ctx.ob("C10-static-noalloc", r, "static-walk", not bad, how="%d calls on feasible static paths, none can allocate" % len(ev),
               detail="operation on a static string can allocate: %s" % "; ".join("%s in %s (line %d)" % (c, f, l) for f, s, c, l in bad[:3]))
        writes = [(fn, callee, line) for (fn, site, callee, key, desc, line, kinds, crate) in ev
                  if callee in WRITE_LEAVES or callee in ("repr::Repr::as_slice_mut", "repr::Repr::as_str_mut", "core::slice::raw::from_raw_parts_mut")]
        ctx.ob("C10-static-nowrite", r, "static-walk", not writes, how="no write primitive or mutable view on feasible static paths",
               detail="operation on a static string can write through memory: %s" % "; ".join("%s in %s (line %d)" % (c, f, l) for f, c, l in writes[:3]))
        kinds_out = {t.kind for cls, t in res if not (isinstance(cls, str) and cls.startswith("unwind"))}
        if r in ("repr::Repr::pop", "repr::Repr::truncate", "LeanString::clear", "repr::Repr::shrink_to"):
            # shortening only changes the borrowed length: the handle keeps pointing at the caller's bytes
            ctx.ob("C10-static-stays", r, "exit-kind", kinds_out <= {"S"}, how="exits with kind in %s" % sorted(kinds_out), detail="static string leaves %s as %s: it stops borrowing the caller's text although nothing was written" % (r, sorted(kinds_out)))
    # mutable pointers into field .0 of a Repr only under a heap guard
    n = 0
    for path, body in F.bodies.items():
        for bb, blk in enumerate(body.blocks):
            for s in blk["stmts"]:
                if s["k"] == "assign" and s["rv"]["k"] == "cast" and s["rv"]["to"].startswith("*mut") and s["rv"]["from"].startswith("*const ()"):
                    e = strip_refs(body.origin_operand(s["rv"]["a"]))
                    if e[0] == "field" and e[2] == 0 and _of_repr(body, e[1]):
                        n += 1
                        gs = guards_at(body, bb)
                        under_heap = any(g[0] == "pred" and g[1] == "repr::Repr::is_heap_buffer" and g[3] is True for g in gs)
                        ctx.ob("C10-mutptr", path, "cast-of-field0", under_heap, how="*mut derived from Repr.0 only on the is_heap_buffer() edge", line=s.get("line", 0),
                               detail="mutable pointer derived from the storage pointer without a heap guard (would alias borrowed static text)")
    # the same through pointer-method casts (`self.0.cast_mut().cast::<u8>()`)
    for path, body in F.bodies.items():
        for bb, t in body.calls():
            k_ = t.get("local_key")
            helper = bool(k_) and k_ in F.bodies and k_ not in anchors(F) and len(t["args"]) == 1 and not t["dest"]["p"] and (body.local_ty(t["dest"]["l"]) or "").startswith("*mut")
            if (callee_name(t) in ("core::ptr::const_ptr::<impl *const T>::cast_mut",) or helper) and t["args"]:      # (or a private `DataPtr::as_mut_ptr(self.0)`)
                from guards import peel_ptr
                e = peel_ptr(body, body.origin_operand(t["args"][0]))      # (`self.0.cast::<u8>().cast_mut()`)
                if e[0] == "field" and e[2] == 0 and _of_repr(body, e[1]) and body.local_ty(t["dest"]["l"]).startswith("*mut"):
                    n += 1
                    gs = guards_at(body, bb)
                    under_heap = any(g[0] == "pred" and g[1] == "repr::Repr::is_heap_buffer" and g[3] is True for g in gs)
                    if "static_buffer" in path:
                        continue
                    ctx.ob("C10-mutptr", path, "cast_mut-of-field0", under_heap, how="*mut derived from Repr.0 only on the is_heap_buffer() edge", line=t.get("line", 0),
                           detail="mutable pointer derived from the storage pointer without a heap guard (would alias borrowed static text)")
    ctx.need("C10-mutptr", "crate", "sites", n >= 1, "no `self.0 as *mut u8` site found (as_slice_mut changed shape?)", how="%d site(s)" % n)
    # a borrowed handle is never viewed as a heap / inline buffer (it would be re-tagged, counted or
    # freed), never handed to a write-capable view, never written through its pointer
    ctx.take_ts(["R-contract.kind=", "R-contract.Modifiable", "R-contract.write"])


def rule_empty_append(ctx, rule="C10-empty"):
    """`push_str("")` (and `+= ""`, `extend([])`, `write!(s, "")`) leaves a borrowed static handle
    borrowed: in Repr::push_str the call that makes the storage writable (reserve) is reached only when
    the appended text is known not to be empty"""
    F = ctx.F
    b = F.bodies.get("repr::Repr::push_str")
    ctx.need(rule, "repr::Repr::push_str", "anchor", b is not None, "Repr::push_str not found")
    if not b:
        return
    n = 0
    for st in inlined_sites(b, lambda nm: nm in ("repr::Repr::reserve", "repr::Repr::ensure_modifiable")):
        n += 1
        gs = st.guards()
        nonempty = any((g[0] == "pred" and g[1] in ("core::str::<impl str>::is_empty",) and g[3] is False and g[2] == "p2") or
                       (g[0] == "cmp" and g[1] == "core::str::<impl str>::len(p2)" and g[2] is not None and g[2] >= 1) or
                       (g[0] == "ne" and g[1] == "core::str::<impl str>::len(p2)" and g[2] == 0) for g in gs)
        ctx.ob(rule, b.path, "reserve-only-for-nonempty-text:" + st.label(), nonempty, line=st.line, how="reserve behind !string.is_empty()",
               detail="push_str reaches %s for an empty text too: appending nothing copies a borrowed static text to the heap / inline storage" % st.name)
    ctx.need(rule, b.path, "reserve-site", n >= 1, "push_str has no reserve call", how="%d site(s)" % n)
