//! Minimal JSON value + serializer (no dependencies).

#[derive(Clone, Debug)]
pub enum J {
    Null,
    Bool(bool),
    Int(i128),
    UInt(u128),
    Str(String),
    Arr(Vec<J>),
    Obj(Vec<(String, J)>),
}

impl J {
    pub fn obj() -> J {
        J::Obj(Vec::new())
    }
    pub fn s<S: Into<String>>(s: S) -> J {
        J::Str(s.into())
    }
    pub fn set<S: Into<String>>(mut self, k: S, v: J) -> J {
        if let J::Obj(ref mut m) = self {
            m.push((k.into(), v));
        }
        self
    }
    pub fn put<S: Into<String>>(&mut self, k: S, v: J) {
        if let J::Obj(m) = self {
            m.push((k.into(), v));
        }
    }
    pub fn write(&self, out: &mut String) {
        match self {
            J::Null => out.push_str("null"),
            J::Bool(b) => out.push_str(if *b { "true" } else { "false" }),
            // python ints are unbounded, so big integers are emitted as plain JSON numbers
            J::Int(i) => out.push_str(&i.to_string()),
            J::UInt(i) => out.push_str(&i.to_string()),
            J::Str(s) => write_str(s, out),
            J::Arr(a) => {
                out.push('[');
                for (i, x) in a.iter().enumerate() {
                    if i > 0 {
                        out.push(',');
                    }
                    x.write(out);
                }
                out.push(']');
            }
            J::Obj(m) => {
                out.push('{');
                for (i, (k, v)) in m.iter().enumerate() {
                    if i > 0 {
                        out.push(',');
                    }
                    write_str(k, out);
                    out.push(':');
                    v.write(out);
                }
                out.push('}');
            }
        }
    }
}

fn write_str(s: &str, out: &mut String) {
    out.push('"');
    for c in s.chars() {
        match c {
            '"' => out.push_str("\\\""),
            '\\' => out.push_str("\\\\"),
            '\n' => out.push_str("\\n"),
            '\r' => out.push_str("\\r"),
            '\t' => out.push_str("\\t"),
            c if (c as u32) < 0x20 => out.push_str(&format!("\\u{:04x}", c as u32)),
            c => out.push(c),
        }
    }
    out.push('"');
}

impl From<bool> for J {
    fn from(b: bool) -> J {
        J::Bool(b)
    }
}
impl From<usize> for J {
    fn from(b: usize) -> J {
        J::UInt(b as u128)
    }
}
impl From<u64> for J {
    fn from(b: u64) -> J {
        J::UInt(b as u128)
    }
}
impl From<u32> for J {
    fn from(b: u32) -> J {
        J::UInt(b as u128)
    }
}
impl From<&str> for J {
    fn from(b: &str) -> J {
        J::Str(b.to_string())
    }
}
impl From<String> for J {
    fn from(b: String) -> J {
        J::Str(b)
    }
}
impl From<Vec<J>> for J {
    fn from(b: Vec<J>) -> J {
        J::Arr(b)
    }
}
