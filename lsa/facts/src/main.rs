//! lsa-facts: rustc driver that dumps the type-checked, callee-resolved MIR of the
//! `lean_string` crate plus compiler tables (consts, ADTs, layouts, impls, API) as one
//! JSON fact file per compilation.  Used as RUSTC_WORKSPACE_WRAPPER.
//!
//! Output: $LSA_FACTS_OUT (a file path).  Only the crate named $LSA_CRATE (default
//! `lean_string`) compiled as a lib is analysed; everything else is passed through.
#![feature(rustc_private)]
#![allow(clippy::all)]

extern crate rustc_abi;
extern crate rustc_driver;
extern crate rustc_hir;
extern crate rustc_interface;
extern crate rustc_middle;
extern crate rustc_session;
extern crate rustc_span;

mod json;
use json::J;

use rustc_driver::Compilation;
use rustc_hir::def::DefKind;
use rustc_hir::def_id::{DefId, LOCAL_CRATE};
use rustc_interface::interface::Compiler;
use rustc_middle::mir::{self, *};
use rustc_middle::ty::print::{with_no_trimmed_paths, with_no_visible_paths};
use rustc_middle::ty::{self, GenericArgsRef, Instance, Ty, TyCtxt, TypingEnv};
use rustc_span::Span;
use std::collections::{BTreeMap, BTreeSet, HashMap};
use rustc_abi::HasDataLayout;

struct Cb;

impl rustc_driver::Callbacks for Cb {
    fn after_analysis<'tcx>(&mut self, _c: &Compiler, tcx: TyCtxt<'tcx>) -> Compilation {
        let want = std::env::var("LSA_CRATE").unwrap_or_else(|_| "lean_string".to_string());
        let name = tcx.crate_name(LOCAL_CRATE).to_string();
        if name != want {
            return Compilation::Continue;
        }
        // only lib compilations (not test harness / build scripts)
        if tcx.sess.opts.test {
            return Compilation::Continue;
        }
        let out = match std::env::var("LSA_FACTS_OUT") {
            Ok(o) => o,
            Err(_) => return Compilation::Continue,
        };
        let j = with_no_trimmed_paths!(with_no_visible_paths!(extract(tcx)));
        let mut s = String::new();
        j.write(&mut s);
        std::fs::write(&out, s).expect("write facts");
        Compilation::Continue
    }
}

fn main() {
    let mut args: Vec<String> = std::env::args().collect();
    // RUSTC_WORKSPACE_WRAPPER passes the real rustc path as argv[1]
    if args.len() > 1 && (args[1].ends_with("rustc") || args[1].contains("/rustc")) {
        args.remove(1);
    }
    rustc_driver::run_compiler(&args, &mut Cb);
}

// ---------------------------------------------------------------------------------------------

struct Cx<'tcx> {
    tcx: TyCtxt<'tcx>,
    keys: HashMap<DefId, String>,
}

fn key_of<'tcx>(cx: &Cx<'tcx>, did: DefId) -> String {
    if let Some(k) = cx.keys.get(&did) {
        return k.clone();
    }
    cx.tcx.def_path_str(did)
}

fn crate_of(tcx: TyCtxt<'_>, did: DefId) -> String {
    tcx.crate_name(did.krate).to_string()
}

fn extract<'tcx>(tcx: TyCtxt<'tcx>) -> J {
    // stable unique keys for local bodies
    let mut keys: HashMap<DefId, String> = HashMap::new();
    let mut seen: BTreeMap<String, usize> = BTreeMap::new();
    let mut owners: Vec<DefId> = tcx.hir_body_owners().map(|d| d.to_def_id()).collect();
    owners.sort_by_key(|d| tcx.def_span(*d).lo());
    for did in &owners {
        let base = tcx.def_path_str(*did);
        let n = seen.entry(base.clone()).or_insert(0);
        let k = if *n == 0 { base.clone() } else { format!("{}#{}", base, n) };
        *n += 1;
        keys.insert(*did, k);
    }
    let cx = Cx { tcx, keys };

    let mut root = J::obj();
    root.put("schema", J::UInt(1));
    root.put("config", config(tcx));
    root.put("consts", consts(&cx, &owners));
    root.put("adts", adts(&cx));
    root.put("layouts", layouts(&cx));
    root.put("impls", impls(&cx));
    root.put("fns", fns(&cx, &owners));
    let mut bodies = Vec::new();
    for did in &owners {
        match tcx.def_kind(*did) {
            DefKind::Fn | DefKind::AssocFn | DefKind::Closure => {
                bodies.push(body(&cx, *did));
            }
            _ => {}
        }
    }
    root.put("bodies", J::Arr(bodies));
    root
}

fn config(tcx: TyCtxt<'_>) -> J {
    let sess = tcx.sess;
    let mut cfgs = Vec::new();
    for (name, val) in sess.config.iter() {
        match val {
            Some(v) => cfgs.push(format!("{}={}", name, v)),
            None => cfgs.push(name.to_string()),
        }
    }
    cfgs.sort();
    let mut feats = Vec::new();
    for c in &cfgs {
        if let Some(f) = c.strip_prefix("feature=") {
            feats.push(J::s(f));
        }
    }
    let dl = tcx.data_layout();
    J::obj()
        .set("target", J::s(sess.opts.target_triple.tuple()))
        .set("ptr_bits", J::UInt(dl.pointer_size().bits() as u128))
        .set("endian", J::s(match dl.endian {
            rustc_abi::Endian::Little => "little",
            rustc_abi::Endian::Big => "big",
        }))
        .set("debug_assertions", J::Bool(sess.opts.debug_assertions))
        .set("overflow_checks", J::Bool(sess.overflow_checks()))
        .set("features", J::Arr(feats))
        .set("cfgs", J::Arr(cfgs.into_iter().map(J::s).collect()))
        .set("crate_types", J::Arr(tcx.crate_types().iter().map(|c| J::s(format!("{:?}", c))).collect()))
}

// ----------------------------------------------------------------------------- consts

fn bytes_hex(b: &[u8]) -> String {
    let mut s = String::with_capacity(b.len() * 2);
    for x in b {
        s.push_str(&format!("{:02x}", x));
    }
    s
}

fn const_value_json<'tcx>(tcx: TyCtxt<'tcx>, val: mir::ConstValue, ty: Ty<'tcx>) -> J {
    let mut o = J::obj();
    o.put("ty", J::s(ty.to_string()));
    match val {
        mir::ConstValue::Scalar(sc) => match sc {
            mir::interpret::Scalar::Int(i) => {
                o.put("scalar", J::UInt(i.to_bits_unchecked()));
                o.put("size", J::UInt(i.size().bytes() as u128));
            }
            mir::interpret::Scalar::Ptr(p, _) => {
                // one level of reference: dump the pointee allocation
                let (prov, off) = p.prov_and_relative_offset();
                let aid = prov.alloc_id();
                if let Some(ga) = tcx.try_get_global_alloc(aid) {
                    if let mir::interpret::GlobalAlloc::Memory(m) = ga {
                        let a = m.inner();
                        let len = a.len();
                        let start = off.bytes() as usize;
                        if len <= 4096 && start <= len {
                            let bytes = a.inspect_with_uninit_and_ptr_outside_interpreter(start..len);
                            o.put("deref_bytes", J::s(bytes_hex(bytes)));
                            // a promoted `&Struct` constant: where the pointee's (declared-order) fields sit
                            if let Some(pointee) = ty.builtin_deref(true) {
                                if let Ok(l) = tcx.layout_of(TypingEnv::fully_monomorphized().as_query_input(pointee)) {
                                    if let rustc_abi::FieldsShape::Arbitrary { offsets, .. } = &l.fields {
                                        let mut offs = Vec::new();
                                        for (_, off) in offsets.iter_enumerated() {
                                            offs.push(J::UInt(off.bytes() as u128));
                                        }
                                        o.put("deref_field_offsets", J::Arr(offs));
                                    }
                                }
                            }
                        }
                    }
                }
            }
        },
        mir::ConstValue::ZeroSized => {
            o.put("zst", J::Bool(true));
        }
        mir::ConstValue::Slice { alloc_id, meta } => {
            if let Some(mir::interpret::GlobalAlloc::Memory(m)) = tcx.try_get_global_alloc(alloc_id) {
                let a = m.inner();
                let len = (meta as usize).min(a.len());
                if len <= 4096 {
                    let bytes = a.inspect_with_uninit_and_ptr_outside_interpreter(0..len);
                    o.put("slice_bytes", J::s(bytes_hex(bytes)));
                }
            }
        }
        mir::ConstValue::Indirect { alloc_id, offset } => {
            if let Some(mir::interpret::GlobalAlloc::Memory(m)) = tcx.try_get_global_alloc(alloc_id) {
                let a = m.inner();
                let start = offset.bytes() as usize;
                let size = tcx
                    .layout_of(TypingEnv::fully_monomorphized().as_query_input(ty))
                    .map(|l| l.size.bytes() as usize)
                    .unwrap_or(a.len() - start);
                let end = (start + size).min(a.len());
                if end - start <= 4096 {
                    let bytes = a.inspect_with_uninit_and_ptr_outside_interpreter(start..end);
                    o.put("bytes", J::s(bytes_hex(bytes)));
                    // where the (declared-order) fields of a struct constant sit in those bytes
                    if let Ok(l) = tcx.layout_of(TypingEnv::fully_monomorphized().as_query_input(ty)) {
                        if let rustc_abi::FieldsShape::Arbitrary { offsets, .. } = &l.fields {
                            let mut offs = Vec::new();
                            for (_, off) in offsets.iter_enumerated() {
                                offs.push(J::UInt(off.bytes() as u128));
                            }
                            o.put("field_offsets", J::Arr(offs));
                        }
                    }
                    // has pointers?
                    o.put("has_ptrs", J::Bool(!a.provenance().ptrs().is_empty()));
                }
            }
        }
    }
    o
}

fn consts<'tcx>(cx: &Cx<'tcx>, owners: &[DefId]) -> J {
    let tcx = cx.tcx;
    let mut v = Vec::new();
    for did in owners {
        let dk = tcx.def_kind(*did);
        let is_const = matches!(dk, DefKind::Const { .. } | DefKind::AssocConst { .. });
        if !is_const {
            continue;
        }
        // skip generic consts
        if tcx.generics_of(*did).requires_monomorphization(tcx) {
            continue;
        }
        let ty = tcx.type_of(*did).instantiate_identity().skip_norm_wip();
        let mut o = J::obj().set("path", J::s(key_of(cx, *did)));
        match tcx.const_eval_poly(*did) {
            Ok(val) => {
                let cj = const_value_json(tcx, val, ty);
                if let J::Obj(m) = cj {
                    for (k, vv) in m {
                        o.put(k, vv);
                    }
                }
            }
            Err(_) => {
                o.put("ty", J::s(ty.to_string()));
                o.put("eval_error", J::Bool(true));
            }
        }
        v.push(o);
    }
    J::Arr(v)
}

// ----------------------------------------------------------------------------- adts

fn local_adts<'tcx>(tcx: TyCtxt<'tcx>) -> Vec<DefId> {
    let mut v = Vec::new();
    for id in tcx.hir_crate_items(()).definitions() {
        let did = id.to_def_id();
        if matches!(tcx.def_kind(did), DefKind::Struct | DefKind::Enum | DefKind::Union) {
            v.push(did);
        }
    }
    v.sort_by_key(|d| tcx.def_span(*d).lo());
    v
}

fn adts<'tcx>(cx: &Cx<'tcx>) -> J {
    let tcx = cx.tcx;
    let mut out = Vec::new();
    for did in local_adts(tcx) {
        let adt = tcx.adt_def(did);
        let mut o = J::obj()
            .set("path", J::s(tcx.def_path_str(did)))
            .set("kind", J::s(if adt.is_enum() { "enum" } else if adt.is_union() { "union" } else { "struct" }))
            .set("repr", J::s(format!("{:?}", adt.repr())))
            .set("repr_c", J::Bool(adt.repr().c()))
            .set("repr_transparent", J::Bool(adt.repr().transparent()))
            .set("vis", J::s(vis_str(tcx, did)));
        let generic = tcx.generics_of(did).requires_monomorphization(tcx);
        o.put("generic", J::Bool(generic));
        let ty = tcx.type_of(did).instantiate_identity().skip_norm_wip();
        if !generic {
            let env = TypingEnv::fully_monomorphized();
            o.put("needs_drop", J::Bool(ty.needs_drop(tcx, env)));
        }
        o.put("has_drop_impl", J::Bool(adt.destructor(tcx).is_some()));
        let mut variants = Vec::new();
        let discrs: Vec<_> = if adt.is_enum() { adt.discriminants(tcx).map(|(_, d)| d.val).collect() } else { vec![] };
        for (i, var) in adt.variants().iter().enumerate() {
            let mut vo = J::obj().set("name", J::s(var.name.to_string()));
            if adt.is_enum() {
                vo.put("discr", J::UInt(discrs[i]));
            }
            let mut fields = Vec::new();
            for f in var.fields.iter() {
                let fty = tcx.type_of(f.did).instantiate_identity().skip_norm_wip();
                fields.push(
                    J::obj()
                        .set("name", J::s(f.name.to_string()))
                        .set("ty", J::s(fty.to_string()))
                        .set("vis", J::s(format!("{:?}", f.vis))),
                );
            }
            vo.put("fields", J::Arr(fields));
            variants.push(vo);
        }
        o.put("variants", J::Arr(variants));
        out.push(o);
    }
    J::Arr(out)
}

fn vis_str(tcx: TyCtxt<'_>, did: DefId) -> String {
    match tcx.visibility(did) {
        ty::Visibility::Public => "pub".to_string(),
        ty::Visibility::Restricted(m) => {
            if m.is_crate_root() {
                "crate".to_string()
            } else {
                format!("in:{}", tcx.def_path_str(m))
            }
        }
    }
}

// ----------------------------------------------------------------------------- layouts

fn layout_json<'tcx>(tcx: TyCtxt<'tcx>, ty: Ty<'tcx>) -> J {
    let mut o = J::obj().set("ty", J::s(ty.to_string()));
    match tcx.layout_of(TypingEnv::fully_monomorphized().as_query_input(ty)) {
        Ok(l) => {
            o.put("size", J::UInt(l.size.bytes() as u128));
            o.put("align", J::UInt(l.align.abi.bytes() as u128));
            match l.largest_niche {
                Some(n) => {
                    o.put(
                        "niche",
                        J::obj()
                            .set("offset", J::UInt(n.offset.bytes() as u128))
                            .set("size", J::UInt(n.value.size(&tcx).bytes() as u128))
                            .set("lo", J::UInt(n.valid_range.start))
                            .set("hi", J::UInt(n.valid_range.end)),
                    );
                }
                None => o.put("niche", J::Null),
            }
            // field offsets for structs
            if let rustc_abi::FieldsShape::Arbitrary { ref offsets, .. } = l.fields {
                o.put("field_offsets", J::Arr(offsets.iter().map(|s| J::UInt(s.bytes() as u128)).collect()));
            }
        }
        Err(_) => o.put("error", J::Bool(true)),
    }
    o
}

fn layouts<'tcx>(cx: &Cx<'tcx>) -> J {
    let tcx = cx.tcx;
    let mut out = Vec::new();
    let opt = tcx.lang_items().option_type();
    for did in local_adts(tcx) {
        if tcx.generics_of(did).requires_monomorphization(tcx) {
            continue;
        }
        // lifetimes-only generics are fine: erase
        let ty = tcx.type_of(did).instantiate_identity().skip_norm_wip();
        let ty = tcx.erase_and_anonymize_regions(ty);
        out.push(layout_json(tcx, ty));
        if let Some(opt) = opt {
            let args = tcx.mk_args(&[ty.into()]);
            let oty = Ty::new_adt(tcx, tcx.adt_def(opt), args);
            out.push(layout_json(tcx, oty));
        }
    }
    J::Arr(out)
}

// ----------------------------------------------------------------------------- impls

fn impls<'tcx>(cx: &Cx<'tcx>) -> J {
    let tcx = cx.tcx;
    let mut out = Vec::new();
    let mut all: Vec<(DefId, DefId)> = Vec::new();
    for (trait_did, impls) in tcx.all_local_trait_impls(()).iter() {
        for i in impls {
            all.push((*trait_did, i.to_def_id()));
        }
    }
    all.sort_by_key(|(_, i)| tcx.def_span(*i).lo());
    for (trait_did, impl_did) in all {
        let hdr = tcx.impl_trait_header(impl_did);
        let tr = hdr.trait_ref.instantiate_identity().skip_norm_wip();
        let mut o = J::obj()
            .set("trait", J::s(tcx.def_path_str(trait_did)))
            .set("trait_crate", J::s(crate_of(tcx, trait_did)))
            .set("trait_ref", J::s(tr.to_string()))
            .set("self", J::s(tr.self_ty().to_string()))
            .set("trait_args", J::Arr(tr.args.iter().skip(1).map(|a| J::s(a.to_string())).collect()))
            .set("safety", J::s(format!("{:?}", hdr.safety)))
            .set("polarity", J::s(format!("{:?}", hdr.polarity)))
            .set("line", J::UInt(line_of(tcx, tcx.def_span(impl_did)) as u128))
            .set("file", J::s(file_of(tcx, tcx.def_span(impl_did))))
            .set("automatically_derived", J::Bool(tcx.is_automatically_derived(impl_did)));
        let mut items = J::obj();
        for item in tcx.associated_item_def_ids(impl_did) {
            let nm = tcx.item_name(*item).to_string();
            items.put(nm, J::s(key_of(cx, *item)));
        }
        o.put("items", items);
        out.push(o);
    }
    J::Arr(out)
}

// ----------------------------------------------------------------------------- fn table

fn fns<'tcx>(cx: &Cx<'tcx>, owners: &[DefId]) -> J {
    let tcx = cx.tcx;
    let ev = tcx.effective_visibilities(());
    let mut out = Vec::new();
    for did in owners {
        if !matches!(tcx.def_kind(*did), DefKind::Fn | DefKind::AssocFn) {
            continue;
        }
        let sig = tcx.fn_sig(*did).instantiate_identity().skip_norm_wip().skip_binder();
        let ldid = did.expect_local();
        let mut o = J::obj()
            .set("path", J::s(key_of(cx, *did)))
            .set("name", J::s(tcx.item_name(*did).to_string()))
            .set("safety", J::s(if sig.safety().is_unsafe() { "unsafe" } else { "safe" }))
            .set("vis", J::s(vis_str(tcx, *did)))
            .set("exported", J::Bool(ev.is_reachable(ldid)))
            .set("constness", J::Bool(tcx.is_const_fn(*did)))
            .set("inputs", J::Arr(sig.inputs().iter().map(|t| J::s(t.to_string())).collect()))
            .set("output", J::s(sig.output().to_string()));
        // container
        if let Some(parent) = tcx.opt_parent(*did) {
            match tcx.def_kind(parent) {
                DefKind::Impl { of_trait } => {
                    o.put("impl_of_trait", J::Bool(of_trait));
                    let sty = tcx.type_of(parent).instantiate_identity().skip_norm_wip();
                    o.put("impl_self", J::s(sty.to_string()));
                    if of_trait {
                        let tr = tcx.impl_trait_header(parent).trait_ref.instantiate_identity().skip_norm_wip();
                        o.put("impl_trait", J::s(tcx.def_path_str(tr.def_id)));
                        o.put("impl_trait_ref", J::s(tr.to_string()));
                    }
                }
                DefKind::Trait => {
                    o.put("in_trait", J::s(tcx.def_path_str(parent)));
                }
                _ => {}
            }
        }
        out.push(o);
    }
    J::Arr(out)
}

// ----------------------------------------------------------------------------- spans

fn line_of(tcx: TyCtxt<'_>, sp: Span) -> usize {
    let sm = tcx.sess.source_map();
    sm.lookup_char_pos(sp.lo()).line
}

fn file_of(tcx: TyCtxt<'_>, sp: Span) -> String {
    let sm = tcx.sess.source_map();
    let f = sm.lookup_char_pos(sp.lo()).file;
    format!("{}", f.name.prefer_local_unconditionally())
}

fn span_json(tcx: TyCtxt<'_>, sp: Span, o: &mut J) {
    // the line in the crate's own source: walk out of macro expansions for the call site
    let root = sp.source_callsite();
    o.put("line", J::UInt(line_of(tcx, root) as u128));
    if sp.from_expansion() {
        let mut names = Vec::new();
        let mut cfgs = Vec::new();
        for e in sp.macro_backtrace() {
            let d = e.kind.descr();
            if d == "cfg!" {
                // which configuration predicate: cfg!(debug_assertions) regions are exempt from
                // several rules, cfg!(feature = ..) / cfg!(target_..) ones are not
                if let Ok(snip) = tcx.sess.source_map().span_to_snippet(e.call_site) {
                    cfgs.push(J::s(&snip.chars().filter(|c| !c.is_whitespace()).collect::<String>()));
                }
            }
            names.push(J::s(d));
        }
        o.put("expn", J::Arr(names));
        if !cfgs.is_empty() {
            o.put("cfgsrc", J::Arr(cfgs));
        }
    }
}

// ----------------------------------------------------------------------------- MIR

fn place_json<'tcx>(p: &Place<'tcx>) -> J {
    let mut proj = Vec::new();
    for e in p.projection.iter() {
        proj.push(match e {
            ProjectionElem::Deref => J::s("deref"),
            ProjectionElem::Field(f, ty) => J::obj().set("f", J::UInt(f.as_usize() as u128)).set("ty", J::s(ty.to_string())),
            ProjectionElem::Index(l) => J::obj().set("idx", J::UInt(l.as_usize() as u128)),
            ProjectionElem::ConstantIndex { offset, min_length, from_end } => J::obj()
                .set("cidx", J::UInt(offset as u128))
                .set("min_length", J::UInt(min_length as u128))
                .set("from_end", J::Bool(from_end)),
            ProjectionElem::Subslice { from, to, from_end } => J::obj()
                .set("subslice", J::Arr(vec![J::UInt(from as u128), J::UInt(to as u128)]))
                .set("from_end", J::Bool(from_end)),
            ProjectionElem::Downcast(name, v) => J::obj()
                .set("downcast", J::UInt(v.as_usize() as u128))
                .set("name", name.map(|n| J::s(n.to_string())).unwrap_or(J::Null)),
            ProjectionElem::OpaqueCast(ty) => J::obj().set("opaque_cast", J::s(ty.to_string())),
            ProjectionElem::UnwrapUnsafeBinder(ty) => J::obj().set("unwrap_binder", J::s(ty.to_string())),
        });
    }
    J::obj().set("l", J::UInt(p.local.as_usize() as u128)).set("p", J::Arr(proj))
}

fn generic_args_json<'tcx>(args: GenericArgsRef<'tcx>) -> J {
    J::Arr(
        args.iter()
            .filter(|a| a.as_region().is_none())
            .map(|a| J::s(a.to_string()))
            .collect(),
    )
}

fn const_json<'tcx>(cx: &Cx<'tcx>, owner: DefId, c: &ConstOperand<'tcx>) -> J {
    let tcx = cx.tcx;
    let ty = c.const_.ty();
    let mut o = J::obj().set("ty", J::s(ty.to_string()));
    match ty.kind() {
        ty::FnDef(did, args) => {
            o.put("fn", J::s(tcx.def_path_str(*did)));
            o.put("fn_args", generic_args_json(args));
            if did.is_local() {
                o.put("fn_key", J::s(key_of(cx, *did)));
            }
            return o;
        }
        ty::Closure(did, _) => {
            o.put("closure", J::s(key_of(cx, *did)));
            return o;
        }
        _ => {}
    }
    if let mir::Const::Unevaluated(u, _) = c.const_ {
        o.put("named", J::s(key_of(cx, u.def)));
        if let Some(p) = u.promoted {
            o.put("promoted", J::UInt(p.as_usize() as u128));
        }
    }
    let env = TypingEnv::post_analysis(tcx, owner);
    let generic = c.const_.has_non_region_param_any();
    if !generic {
        if let Ok(val) = c.const_.eval(tcx, env, c.span) {
            match val {
                mir::ConstValue::Scalar(mir::interpret::Scalar::Int(i)) => {
                    o.put("scalar", J::UInt(i.to_bits_unchecked()));
                    o.put("size", J::UInt(i.size().bytes() as u128));
                    // signed interpretation
                    if ty.is_signed() {
                        o.put("signed", J::Int(i.to_int(i.size())));
                    }
                }
                mir::ConstValue::ZeroSized => {
                    o.put("zst", J::Bool(true));
                }
                other => {
                    let cj = const_value_json(tcx, other, ty);
                    if let J::Obj(m) = cj {
                        for (k, v) in m {
                            if k != "ty" {
                                o.put(k, v);
                            }
                        }
                    }
                }
            }
        }
    } else {
        o.put("generic", J::Bool(true));
    }
    o
}

trait HasParamAny {
    fn has_non_region_param_any(&self) -> bool;
}
impl<'tcx> HasParamAny for mir::Const<'tcx> {
    fn has_non_region_param_any(&self) -> bool {
        use rustc_middle::ty::TypeVisitableExt;
        match self {
            mir::Const::Ty(t, c) => t.has_non_region_param() || c.has_non_region_param(),
            mir::Const::Unevaluated(u, t) => t.has_non_region_param() || u.args.has_non_region_param(),
            mir::Const::Val(_, t) => t.has_non_region_param(),
        }
    }
}

fn operand_json<'tcx>(cx: &Cx<'tcx>, owner: DefId, op: &Operand<'tcx>) -> J {
    match op {
        Operand::Copy(p) => J::obj().set("cp", place_json(p)),
        Operand::Move(p) => J::obj().set("mv", place_json(p)),
        Operand::Constant(c) => J::obj().set("c", const_json(cx, owner, c)),
        Operand::RuntimeChecks(rc) => J::obj().set("rtc", J::s(format!("{:?}", rc))),
    }
}

fn rvalue_json<'tcx>(cx: &Cx<'tcx>, owner: DefId, body: &Body<'tcx>, rv: &Rvalue<'tcx>) -> J {
    let tcx = cx.tcx;
    match rv {
        Rvalue::Use(op, _) => J::obj().set("k", J::s("use")).set("a", operand_json(cx, owner, op)),
        Rvalue::Repeat(op, n) => J::obj()
            .set("k", J::s("repeat"))
            .set("a", operand_json(cx, owner, op))
            .set("n", J::s(n.to_string())),
        Rvalue::Ref(_, bk, p) => J::obj()
            .set("k", J::s("ref"))
            .set("mut", J::Bool(matches!(bk, BorrowKind::Mut { .. })))
            .set("fake", J::Bool(matches!(bk, BorrowKind::Fake(_))))
            .set("pl", place_json(p)),
        Rvalue::ThreadLocalRef(d) => J::obj().set("k", J::s("tls")).set("def", J::s(tcx.def_path_str(*d))),
        Rvalue::RawPtr(k, p) => J::obj()
            .set("k", J::s("rawptr"))
            .set("mut", J::Bool(matches!(k, RawPtrKind::Mut)))
            .set("pl", place_json(p)),
        Rvalue::Cast(kind, op, ty) => {
            let from = op.ty(&body.local_decls, tcx);
            J::obj()
                .set("k", J::s("cast"))
                .set("kind", J::s(format!("{:?}", kind)))
                .set("a", operand_json(cx, owner, op))
                .set("from", J::s(from.to_string()))
                .set("to", J::s(ty.to_string()))
        }
        Rvalue::BinaryOp(op, ab) => J::obj()
            .set("k", J::s("bin"))
            .set("op", J::s(format!("{:?}", op)))
            .set("a", operand_json(cx, owner, &ab.0))
            .set("b", operand_json(cx, owner, &ab.1))
            .set("aty", J::s(ab.0.ty(&body.local_decls, tcx).to_string())),
        Rvalue::UnaryOp(op, a) => J::obj()
            .set("k", J::s("un"))
            .set("op", J::s(format!("{:?}", op)))
            .set("a", operand_json(cx, owner, a))
            .set("aty", J::s(a.ty(&body.local_decls, tcx).to_string())),
        Rvalue::Discriminant(p) => J::obj()
            .set("k", J::s("discriminant"))
            .set("pl", place_json(p))
            .set("of", J::s(p.ty(&body.local_decls, tcx).ty.to_string())),
        Rvalue::Aggregate(kind, fields) => {
            let mut o = J::obj().set("k", J::s("aggregate"));
            match &**kind {
                AggregateKind::Array(t) => {
                    o.put("agg", J::s("array"));
                    o.put("elem", J::s(t.to_string()));
                }
                AggregateKind::Tuple => o.put("agg", J::s("tuple")),
                AggregateKind::Adt(did, variant, args, _, active) => {
                    o.put("agg", J::s("adt"));
                    o.put("adt", J::s(tcx.def_path_str(*did)));
                    o.put("adt_crate", J::s(crate_of(tcx, *did)));
                    o.put("variant", J::UInt(variant.as_usize() as u128));
                    let adt = tcx.adt_def(*did);
                    o.put("variant_name", J::s(adt.variant(*variant).name.to_string()));
                    o.put("adt_args", generic_args_json(args));
                    if let Some(a) = active {
                        o.put("union_field", J::UInt(a.as_usize() as u128));
                    }
                }
                AggregateKind::Closure(did, _) => {
                    o.put("agg", J::s("closure"));
                    o.put("closure", J::s(key_of(cx, *did)));
                }
                AggregateKind::RawPtr(t, m) => {
                    o.put("agg", J::s("rawptr"));
                    o.put("pointee", J::s(t.to_string()));
                    o.put("mut", J::Bool(m.is_mut()));
                }
                other => {
                    o.put("agg", J::s(format!("{:?}", other)));
                }
            }
            o.put("fields", J::Arr(fields.iter().map(|f| operand_json(cx, owner, f)).collect()));
            o
        }
        Rvalue::CopyForDeref(p) => J::obj().set("k", J::s("use")).set("a", J::obj().set("cp", place_json(p))).set("copy_for_deref", J::Bool(true)),
        Rvalue::WrapUnsafeBinder(op, ty) => J::obj()
            .set("k", J::s("other"))
            .set("text", J::s(format!("wrap_binder {}", ty)))
            .set("a", operand_json(cx, owner, op)),
    }
}

/// Walk a type and collect local ADTs with a Drop impl that dropping the type may run,
/// and whether the type mentions a type parameter / opaque / dyn (user-code drop).
fn drop_info<'tcx>(cx: &Cx<'tcx>, ty: Ty<'tcx>, local_drops: &mut BTreeSet<String>, generic: &mut bool, depth: usize) {
    let tcx = cx.tcx;
    if depth > 8 {
        *generic = true;
        return;
    }
    match ty.kind() {
        ty::Param(_) | ty::Alias(..) | ty::Dynamic(..) | ty::Placeholder(_) | ty::Bound(..) | ty::Infer(_) => {
            *generic = true;
        }
        ty::Adt(adt, args) => {
            if adt.is_manually_drop() {
                return;
            }
            if let Some(d) = adt.destructor(tcx) {
                if d.did.is_local() {
                    local_drops.insert(key_of(cx, d.did));
                } else {
                    // foreign Drop impl: may drop its generic args (Box<T>, Vec<T>, ...)
                }
            }
            if adt.did().is_local() {
                for v in adt.variants().iter() {
                    for f in v.fields.iter() {
                        let fty = f.ty(tcx, args);
                        drop_info(cx, fty, local_drops, generic, depth + 1);
                    }
                }
            } else {
                for a in args.iter() {
                    if let Some(t) = a.as_type() {
                        drop_info(cx, t, local_drops, generic, depth + 1);
                    }
                }
            }
        }
        ty::Tuple(ts) => {
            for t in ts.iter() {
                drop_info(cx, t, local_drops, generic, depth + 1);
            }
        }
        ty::Array(t, _) | ty::Slice(t) => drop_info(cx, *t, local_drops, generic, depth + 1),
        ty::Closure(_, args) => {
            for t in args.as_closure().upvar_tys().iter() {
                drop_info(cx, t, local_drops, generic, depth + 1);
            }
        }
        _ => {}
    }
}

fn mentions_local<'tcx>(cx: &Cx<'tcx>, ty: Ty<'tcx>, closures: &mut BTreeSet<String>, adts: &mut BTreeSet<String>) {
    for arg in ty.walk() {
        if let Some(t) = arg.as_type() {
            match t.kind() {
                ty::Closure(did, _) if did.is_local() => {
                    closures.insert(key_of(cx, *did));
                }
                ty::FnDef(did, _) if did.is_local() => {
                    closures.insert(key_of(cx, *did));
                }
                ty::Adt(adt, _) if adt.did().is_local() => {
                    adts.insert(cx.tcx.def_path_str(adt.did()));
                }
                _ => {}
            }
        }
    }
}

fn resolve_call<'tcx>(
    cx: &Cx<'tcx>,
    env: TypingEnv<'tcx>,
    did: DefId,
    args: GenericArgsRef<'tcx>,
    o: &mut J,
) -> Option<Instance<'tcx>> {
    let tcx = cx.tcx;
    o.put("callee", J::s(tcx.def_path_str(did)));
    o.put("callee_crate", J::s(crate_of(tcx, did)));
    o.put("generic_args", generic_args_json(args));
    // trait method?
    if let Some(tr) = tcx.trait_of_assoc(did) {
        o.put("trait", J::s(tcx.def_path_str(tr)));
        o.put("trait_crate", J::s(crate_of(tcx, tr)));
        o.put("self_ty", J::s(args.type_at(0).to_string()));
    }
    let args = tcx.erase_and_anonymize_regions(args);
    match Instance::try_resolve(tcx, env, did, args) {
        Ok(Some(inst)) => {
            let rdid = inst.def_id();
            o.put("resolved", J::Bool(true));
            o.put("inst", J::s(tcx.def_path_str_with_args(rdid, inst.args)));
            o.put("inst_def", J::s(tcx.def_path_str(rdid)));
            o.put("inst_crate", J::s(crate_of(tcx, rdid)));
            o.put("inst_kind", J::s(instance_kind(&inst)));
            if rdid.is_local() && matches!(tcx.def_kind(rdid), DefKind::Fn | DefKind::AssocFn | DefKind::Closure) {
                o.put("local_key", J::s(key_of(cx, rdid)));
            }
            Some(inst)
        }
        _ => {
            o.put("resolved", J::Bool(false));
            None
        }
    }
}

fn instance_kind(inst: &Instance<'_>) -> &'static str {
    match inst.def {
        ty::InstanceKind::Item(_) => "item",
        ty::InstanceKind::Intrinsic(_) => "intrinsic",
        ty::InstanceKind::Virtual(..) => "virtual",
        ty::InstanceKind::ClosureOnceShim { .. } => "closure_once_shim",
        ty::InstanceKind::FnPtrShim(..) => "fn_ptr_shim",
        ty::InstanceKind::DropGlue(..) => "drop_glue",
        ty::InstanceKind::CloneShim(..) => "clone_shim",
        ty::InstanceKind::ReifyShim(..) => "reify_shim",
        _ => "other_shim",
    }
}

/// For a call to a local generic fn with concrete type arguments: resolve the callee's own
/// unresolved calls under the substitution (depth 1), so that e.g. `from_num::<i8>` links
/// to `<i8 as NumToRepr>::into_repr`.
fn mono_calls<'tcx>(cx: &Cx<'tcx>, inst: Instance<'tcx>, depth: usize, out: &mut Vec<J>) {
    let tcx = cx.tcx;
    let did = inst.def_id();
    if !did.is_local() || depth > 3 {
        return;
    }
    if !matches!(tcx.def_kind(did), DefKind::Fn | DefKind::AssocFn | DefKind::Closure) {
        return;
    }
    use rustc_middle::ty::TypeVisitableExt;
    if inst.args.has_non_region_param() {
        return;
    }
    if !tcx.generics_of(did).requires_monomorphization(tcx) {
        return;
    }
    let body = tcx.optimized_mir(did);
    let env = TypingEnv::fully_monomorphized();
    for bb in body.basic_blocks.iter() {
        if let Some(term) = &bb.terminator {
            if let TerminatorKind::Call { func, .. } = &term.kind {
                if let Some((cdid, cargs)) = func.const_fn_def() {
                    let cargs2 = inst.instantiate_mir_and_normalize_erasing_regions(tcx, env, ty::EarlyBinder::bind(cargs));
                    if let Ok(Some(ci)) = Instance::try_resolve(tcx, env, cdid, cargs2) {
                        let rdid = ci.def_id();
                        let mut o = J::obj()
                            .set("via", J::s(key_of(cx, did)))
                            .set("callee", J::s(tcx.def_path_str(cdid)))
                            .set("inst", J::s(tcx.def_path_str_with_args(rdid, ci.args)))
                            .set("inst_def", J::s(tcx.def_path_str(rdid)))
                            .set("inst_crate", J::s(crate_of(tcx, rdid)));
                        if rdid.is_local() && matches!(tcx.def_kind(rdid), DefKind::Fn | DefKind::AssocFn | DefKind::Closure) {
                            o.put("local_key", J::s(key_of(cx, rdid)));
                        }
                        out.push(o);
                        mono_calls(cx, ci, depth + 1, out);
                    }
                }
            }
        }
    }
}

/// Callbacks a non-local callee can make into this crate, derived from its generic args.
fn callbacks<'tcx>(cx: &Cx<'tcx>, env: TypingEnv<'tcx>, did: DefId, args: GenericArgsRef<'tcx>, o: &mut J) {
    let tcx = cx.tcx;
    let mut closures = BTreeSet::new();
    let mut adts_m = BTreeSet::new();
    for a in args.iter() {
        if let Some(t) = a.as_type() {
            mentions_local(cx, t, &mut closures, &mut adts_m);
        }
    }
    if !closures.is_empty() {
        o.put("cb_closures", J::Arr(closures.into_iter().map(J::s).collect()));
    }
    if !adts_m.is_empty() {
        o.put("cb_local_adts", J::Arr(adts_m.into_iter().map(J::s).collect()));
    }
    // trait-driven callbacks: for every local trait impl whose self type / trait args are among
    // the callee's generic args, list it (over-approximation resolved in the rule engine).
    let mut cb_impls = Vec::new();
    let name = tcx.def_path_str(did);
    let try_pair = |trait_did: Option<DefId>, self_ty: Ty<'tcx>, rest: &[ty::GenericArg<'tcx>], method: &str, cb_impls: &mut Vec<J>| {
        let Some(trait_did) = trait_did else { return };
        let Some(item) = tcx
            .associated_items(trait_did)
            .in_definition_order()
            .find(|i| i.name().as_str() == method)
        else {
            return;
        };
        let mut v: Vec<ty::GenericArg<'tcx>> = vec![self_ty.into()];
        v.extend_from_slice(rest);
        let targs = tcx.mk_args(&v);
        let targs = tcx.erase_and_anonymize_regions(targs);
        if let Ok(Some(inst)) = Instance::try_resolve(tcx, env, item.def_id, targs) {
            let rdid = inst.def_id();
            let mut e = J::obj()
                .set("inst", J::s(tcx.def_path_str_with_args(rdid, inst.args)))
                .set("inst_def", J::s(tcx.def_path_str(rdid)))
                .set("inst_crate", J::s(crate_of(tcx, rdid)));
            if rdid.is_local() {
                e.put("local_key", J::s(key_of(cx, rdid)));
            }
            cb_impls.push(e);
        }
    };
    if name == "core::convert::Into::into" && args.len() >= 2 {
        // <T as Into<U>>::into  ==>  <U as From<T>>::from
        let t = args.type_at(0);
        let u = args.type_at(1);
        let from = tcx.get_diagnostic_item(rustc_span::sym::From);
        try_pair(from, u, &[t.into()], "from", &mut cb_impls);
    }
    if name == "core::iter::Iterator::collect" && args.len() >= 2 {
        // <I as Iterator>::collect::<B>  ==>  <B as FromIterator<I::Item>>::from_iter::<I>
        let i = args.type_at(0);
        let b = args.type_at(1);
        if let Some(iter_trait) = tcx.get_diagnostic_item(rustc_span::sym::Iterator) {
            if let Some(item_assoc) = tcx
                .associated_items(iter_trait)
                .in_definition_order()
                .find(|x| x.name().as_str() == "Item")
            {
                let proj = Ty::new_projection(tcx, item_assoc.def_id, tcx.mk_args(&[i.into()]));
                if let Ok(item_ty) = tcx.try_normalize_erasing_regions(env, ty::Unnormalized::new_wip(proj)) {
                    let fi = tcx.get_diagnostic_item(rustc_span::sym::FromIterator);
                    if let Some(fi) = fi {
                        if let Some(m) = tcx.associated_items(fi).in_definition_order().find(|x| x.name().as_str() == "from_iter") {
                            let targs = tcx.mk_args(&[b.into(), item_ty.into(), i.into()]);
                            let targs = tcx.erase_and_anonymize_regions(targs);
                            if let Ok(Some(inst)) = Instance::try_resolve(tcx, env, m.def_id, targs) {
                                let rdid = inst.def_id();
                                let mut e = J::obj()
                                    .set("inst", J::s(tcx.def_path_str_with_args(rdid, inst.args)))
                                    .set("inst_def", J::s(tcx.def_path_str(rdid)))
                                    .set("inst_crate", J::s(crate_of(tcx, rdid)));
                                if rdid.is_local() {
                                    e.put("local_key", J::s(key_of(cx, rdid)));
                                }
                                cb_impls.push(e);
                            }
                        }
                    }
                }
            }
        }
    }
    if !cb_impls.is_empty() {
        o.put("cb_impls", J::Arr(cb_impls));
    }
}

fn body<'tcx>(cx: &Cx<'tcx>, did: DefId) -> J {
    let tcx = cx.tcx;
    let body: &Body<'tcx> = tcx.optimized_mir(did);
    let env = TypingEnv::post_analysis(tcx, did);
    let dk = tcx.def_kind(did);
    let sp = tcx.def_span(did);
    let full = body.span;
    let sm = tcx.sess.source_map();
    let mut o = J::obj()
        .set("path", J::s(key_of(cx, did)))
        .set("kind", J::s(match dk {
            DefKind::Closure => "closure",
            DefKind::AssocFn => "assoc_fn",
            _ => "fn",
        }))
        .set("file", J::s(file_of(tcx, sp)))
        .set("lines", J::Arr(vec![
            J::UInt(sm.lookup_char_pos(full.lo()).line as u128),
            J::UInt(sm.lookup_char_pos(full.hi()).line as u128),
        ]))
        .set("from_expansion", J::Bool(sp.from_expansion()))
        .set("arg_count", J::UInt(body.arg_count as u128))
        .set("generic", J::Bool(tcx.generics_of(did).requires_monomorphization(tcx)));
    if dk != DefKind::Closure {
        let sig = tcx.fn_sig(did).instantiate_identity().skip_norm_wip().skip_binder();
        o.put("safety", J::s(if sig.safety().is_unsafe() { "unsafe" } else { "safe" }));
        o.put("vis", J::s(vis_str(tcx, did)));
    } else {
        o.put("parent", J::s(key_of(cx, tcx.typeck_root_def_id(did))));
    }
    // locals
    let mut names: BTreeMap<usize, String> = BTreeMap::new();
    for vdi in &body.var_debug_info {
        if let VarDebugInfoContents::Place(p) = &vdi.value {
            if p.projection.is_empty() {
                names.entry(p.local.as_usize()).or_insert_with(|| vdi.name.to_string());
            }
        }
    }
    let mut locals = Vec::new();
    for (i, d) in body.local_decls.iter_enumerated() {
        let mut lo = J::obj().set("ty", J::s(d.ty.to_string()));
        if let Some(n) = names.get(&i.as_usize()) {
            lo.put("name", J::s(n.clone()));
        }
        if d.mutability.is_mut() {
            lo.put("mut", J::Bool(true));
        }
        // no-drop-glue heap-capable?
        locals.push(lo);
    }
    o.put("locals", J::Arr(locals));

    let mut blocks = Vec::new();
    for (_bb, data) in body.basic_blocks.iter_enumerated() {
        let mut stmts = Vec::new();
        for st in &data.statements {
            let mut so = J::obj();
            match &st.kind {
                StatementKind::Assign(b) => {
                    let (pl, rv) = &**b;
                    so.put("k", J::s("assign"));
                    so.put("lhs", place_json(pl));
                    so.put("rv", rvalue_json(cx, did, body, rv));
                    so.put("lhs_ty", J::s(pl.ty(&body.local_decls, tcx).ty.to_string()));
                }
                StatementKind::SetDiscriminant { place, variant_index } => {
                    so.put("k", J::s("set_discr"));
                    so.put("lhs", place_json(place));
                    so.put("variant", J::UInt(variant_index.as_usize() as u128));
                }
                StatementKind::StorageLive(l) => {
                    so.put("k", J::s("live"));
                    so.put("l", J::UInt(l.as_usize() as u128));
                }
                StatementKind::StorageDead(l) => {
                    so.put("k", J::s("dead"));
                    so.put("l", J::UInt(l.as_usize() as u128));
                }
                StatementKind::Intrinsic(i) => match &**i {
                    NonDivergingIntrinsic::Assume(op) => {
                        so.put("k", J::s("assume"));
                        so.put("a", operand_json(cx, did, op));
                    }
                    NonDivergingIntrinsic::CopyNonOverlapping(c) => {
                        so.put("k", J::s("copy_nonoverlapping"));
                        so.put("src", operand_json(cx, did, &c.src));
                        so.put("dst", operand_json(cx, did, &c.dst));
                        so.put("count", operand_json(cx, did, &c.count));
                    }
                },
                StatementKind::Nop
                | StatementKind::ConstEvalCounter
                | StatementKind::Coverage(..)
                | StatementKind::FakeRead(..)
                | StatementKind::PlaceMention(..)
                | StatementKind::AscribeUserType(..)
                | StatementKind::BackwardIncompatibleDropHint { .. } => continue,
            }
            span_json(tcx, st.source_info.span, &mut so);
            stmts.push(so);
        }
        let term = data.terminator();
        let mut t = J::obj();
        match &term.kind {
            TerminatorKind::Goto { target } => {
                t.put("k", J::s("goto"));
                t.put("target", J::UInt(target.as_usize() as u128));
            }
            TerminatorKind::SwitchInt { discr, targets } => {
                t.put("k", J::s("switch"));
                t.put("discr", operand_json(cx, did, discr));
                t.put("discr_ty", J::s(discr.ty(&body.local_decls, tcx).to_string()));
                let mut arms = Vec::new();
                for (v, bb) in targets.iter() {
                    arms.push(J::Arr(vec![J::UInt(v), J::UInt(bb.as_usize() as u128)]));
                }
                t.put("arms", J::Arr(arms));
                t.put("otherwise", J::UInt(targets.otherwise().as_usize() as u128));
            }
            TerminatorKind::UnwindResume => t.put("k", J::s("resume")),
            TerminatorKind::UnwindTerminate(_) => t.put("k", J::s("terminate")),
            TerminatorKind::Return => t.put("k", J::s("return")),
            TerminatorKind::Unreachable => t.put("k", J::s("unreachable")),
            TerminatorKind::Drop { place, target, unwind, .. } => {
                t.put("k", J::s("drop"));
                t.put("pl", place_json(place));
                let ty = place.ty(&body.local_decls, tcx).ty;
                t.put("ty", J::s(ty.to_string()));
                let mut ld = BTreeSet::new();
                let mut generic = false;
                drop_info(cx, ty, &mut ld, &mut generic, 0);
                t.put("local_drops", J::Arr(ld.into_iter().map(J::s).collect()));
                t.put("generic_ty", J::Bool(generic));
                t.put("target", J::UInt(target.as_usize() as u128));
                unwind_json(unwind, &mut t);
            }
            TerminatorKind::Call { func, args, destination, target, unwind, call_source, .. } => {
                t.put("k", J::s("call"));
                t.put("call_source", J::s(format!("{:?}", call_source)));
                if let Some((cdid, cargs)) = func.const_fn_def() {
                    let inst = resolve_call(cx, env, cdid, cargs, &mut t);
                    if let Some(inst) = inst {
                        let mut mc = Vec::new();
                        mono_calls(cx, inst, 0, &mut mc);
                        if !mc.is_empty() {
                            t.put("mono_calls", J::Arr(mc));
                        }
                        if !inst.def_id().is_local() {
                            callbacks(cx, env, cdid, cargs, &mut t);
                        }
                    } else if !cdid.is_local() {
                        callbacks(cx, env, cdid, cargs, &mut t);
                    }
                } else {
                    t.put("callee", J::Null);
                    t.put("func", operand_json(cx, did, func));
                    t.put("func_ty", J::s(func.ty(&body.local_decls, tcx).to_string()));
                    t.put("resolved", J::Bool(false));
                }
                t.put(
                    "args",
                    J::Arr(args.iter().map(|a| operand_json(cx, did, &a.node)).collect()),
                );
                t.put(
                    "arg_tys",
                    J::Arr(args.iter().map(|a| J::s(a.node.ty(&body.local_decls, tcx).to_string())).collect()),
                );
                t.put("dest", place_json(destination));
                match target {
                    Some(bb) => t.put("target", J::UInt(bb.as_usize() as u128)),
                    None => t.put("target", J::Null),
                }
                unwind_json(unwind, &mut t);
            }
            TerminatorKind::Assert { cond, expected, msg, target, unwind } => {
                t.put("k", J::s("assert"));
                t.put("cond", operand_json(cx, did, cond));
                t.put("expected", J::Bool(*expected));
                let mk = match &**msg {
                    AssertKind::BoundsCheck { .. } => "bounds".to_string(),
                    AssertKind::Overflow(op, ..) => format!("overflow:{:?}", op),
                    AssertKind::OverflowNeg(_) => "overflow_neg".to_string(),
                    AssertKind::DivisionByZero(_) => "div_zero".to_string(),
                    AssertKind::RemainderByZero(_) => "rem_zero".to_string(),
                    AssertKind::MisalignedPointerDereference { .. } => "misaligned".to_string(),
                    AssertKind::NullPointerDereference => "null_deref".to_string(),
                    AssertKind::InvalidEnumConstruction(_) => "invalid_enum".to_string(),
                    _ => "other".to_string(),
                };
                t.put("msg_kind", J::s(mk));
                t.put("target", J::UInt(target.as_usize() as u128));
                unwind_json(unwind, &mut t);
            }
            TerminatorKind::FalseEdge { real_target, .. } => {
                t.put("k", J::s("goto"));
                t.put("target", J::UInt(real_target.as_usize() as u128));
            }
            TerminatorKind::FalseUnwind { real_target, .. } => {
                t.put("k", J::s("goto"));
                t.put("target", J::UInt(real_target.as_usize() as u128));
            }
            other => {
                t.put("k", J::s("other"));
                t.put("text", J::s(format!("{:?}", other)));
            }
        }
        span_json(tcx, term.source_info.span, &mut t);
        blocks.push(
            J::obj()
                .set("cleanup", J::Bool(data.is_cleanup))
                .set("stmts", J::Arr(stmts))
                .set("term", t),
        );
    }
    o.put("blocks", J::Arr(blocks));
    o
}

fn unwind_json(u: &UnwindAction, t: &mut J) {
    match u {
        UnwindAction::Continue => t.put("unwind", J::s("continue")),
        UnwindAction::Unreachable => t.put("unwind", J::s("unreachable")),
        UnwindAction::Terminate(_) => t.put("unwind", J::s("terminate")),
        UnwindAction::Cleanup(bb) => t.put("unwind", J::UInt(bb.as_usize() as u128)),
    }
}
