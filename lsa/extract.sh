#!/bin/bash
# usage: extract.sh <out.json> [extra cargo args...]   (env: LSA_REPO, LSA_RUSTFLAGS_EXTRA)
# One compilation of $LSA_REPO's library with the lsa-facts driver as rustc wrapper; writes the fact file.
# Cross targets (-Zbuild-std) reuse a build of core/alloc kept under lsa/cache/ (gitignored; rebuilt
# when missing): only the crate itself is recompiled, its fingerprint being removed first so that
# cargo cannot skip the wrapper.  If the fact file does not appear, the run is repeated in a fresh
# target directory.
set -e
OUT=$1; shift
REPO=${LSA_REPO:-/repo}
HERE=$(cd "$(dirname "$0")" && pwd)
export LD_LIBRARY_PATH=$(rustc +nightly --print sysroot)/lib
export RUSTFLAGS="-Zmir-opt-level=0 -Awarnings ${LSA_RUSTFLAGS_EXTRA}"
export RUSTC_WORKSPACE_WRAPPER=$HERE/facts/target/debug/lsa-facts
export LSA_FACTS_OUT=$OUT
export CARGO_NET_OFFLINE=true
ERRF=$(mktemp /tmp/lsa-err.XXXXXX)
T=""
cleanup() { rm -f "$ERRF"; [ -n "$T" ] && rm -rf "$T"; true; }
trap cleanup EXIT

run() { # $1 = target dir, rest = cargo args
  local dir=$1; shift
  rm -f "$OUT"
  CARGO_TARGET_DIR=$dir cargo +nightly check --offline --lib --manifest-path $REPO/Cargo.toml "$@" 2>$ERRF
}

case " $* " in
  *" -Zbuild-std"*)
    if [ "${LSA_NO_CACHE:-0}" != 1 ]; then
      TGT=$(echo "$*" | sed -n 's/.*--target \([^ ]*\).*/\1/p')
      C=$HERE/cache/${TGT:-host}
      mkdir -p "$C"
      (
        # one extraction at a time per cached directory
        flock 9
        find "$C" -maxdepth 4 \( -name 'lean_string-*' -o -name 'liblean_string-*' \) -exec rm -rf {} + 2>/dev/null || true
        run "$C" "$@"
      ) 9>"$C/.lsa-lock" && test -s "$OUT" && exit 0
    fi
    ;;
esac
T=$(mktemp -d /tmp/lsa-tgt.XXXXXX)
run "$T" "$@" || { cat $ERRF >&2; exit 2; }
test -s "$OUT" || { echo "no fact file written" >&2; cat $ERRF >&2; exit 2; }
