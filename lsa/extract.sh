#!/bin/bash
# usage: extract.sh <out.json> [extra cargo args...]   (env: LSA_REPO, LSA_RUSTFLAGS_EXTRA)
set -e
OUT=$1; shift
REPO=${LSA_REPO:-/repo}
HERE=$(cd "$(dirname "$0")" && pwd)
T=$(mktemp -d /tmp/lsa-tgt.XXXXXX)
trap 'rm -rf "$T"' EXIT
export LD_LIBRARY_PATH=$(rustc +nightly --print sysroot)/lib
export RUSTFLAGS="-Zmir-opt-level=0 -Awarnings ${LSA_RUSTFLAGS_EXTRA}"
export RUSTC_WORKSPACE_WRAPPER=$HERE/facts/target/debug/lsa-facts
export LSA_FACTS_OUT=$OUT
export CARGO_TARGET_DIR=$T
export CARGO_NET_OFFLINE=true
rm -f "$OUT"
cargo +nightly check --offline --lib --manifest-path $REPO/Cargo.toml "$@" 2>$T/stderr || { cat $T/stderr >&2; exit 2; }
test -s "$OUT" || { echo "no fact file written" >&2; cat $T/stderr >&2; exit 2; }
