#!/usr/bin/env python3
"""Regenerate /verif/MANIFEST.json from the property registry (development tool)."""
import json, os, sys
VERIF = os.path.dirname(os.path.dirname(os.path.abspath(__file__)))
sys.path.insert(0, os.path.join(VERIF, "lsa", "rules"))
import props

ids = [json.loads(l)["id"] for l in open(os.path.join(VERIF, "properties.jsonl"))]
try:
    FLOORS = json.load(open(os.path.join(VERIF, "lsa", "floors.json")))
except OSError:
    FLOORS = {}


def rules_run(pid):
    """the rule families this check evaluated on the reference tree (names as printed in reports),
    each with its one-line meaning: keeps the claim current with what the check really runs"""
    rs = sorted(FLOORS.get(pid, {}))
    if not rs:
        return ""
    parts = []
    for r in rs:
        d = props.RULE_DOC.get(r) or props.RULE_DOC.get(r.split(".")[0]) or ""
        parts.append("%s%s" % (r, (" - " + d) if d else ""))
    return " Rule families evaluated by this check (DESIGN.md 11.3 / 11.4 say which seeded changes each one reports): " + "; ".join(parts) + "."
checks, na = [], []
for pid in ids:
    P = props.PROPS.get(pid)
    if not P or P.get("disabled"):
        na.append({"property_id": pid, "reason": (P or {}).get("na_reason", "check not built yet; planned static rule in DESIGN.md section 3")})
        continue
    checks.append({
        "property_id": pid,
        "quick_cmd": "./check %s --tier quick" % pid,
        "thorough_cmd": "./check %s --tier thorough" % pid,
        "evidence_file": "/verif/evidence/%s.json" % pid,
        "replay_cmd_template": "./check %s --replay {path}" % pid,
        "engine": "lsa",
        "level_claimed": {"category": P.get("level", "other"), "text": P["explanation"] + rules_run(pid), "design_ref": "DESIGN.md section 3, " + pid},
        "level_note": P.get("level_note", "Decides the structural clauses named in the text for every path of the type-checked MIR in every analysed configuration; value-level clauses of the property are not decided. Trusted: rustc front end / MIR construction / const evaluation, the fact serializer, the rule tables, core/alloc behaving as documented."),
        "technique": P.get("technique", "static analysis: custom rustc MIR driver + typestate/dataflow/call-graph rules"),
    })
m = {
    "version": 1,
    "setup_cmd": "cd lsa/facts && cargo build --offline",
    "hooks": {"guard": "lean_string_verif", "enable": "none: the analysis reads /repo through a rustc driver (RUSTC_WORKSPACE_WRAPPER) and needs no source hooks; the cfg name is reserved and unused",
              "baseline_off_cmd": "cd /repo && cargo test --workspace --no-fail-fast --offline",
              "source_commits": [], "add_only": True},
    "engines": [
        {"name": "lsa", "path": "/verif/lsa", "serves_properties": [c["property_id"] for c in checks],
         "kind_free_text": "lsa-facts: rustc_private driver dumping MIR/consts/layouts/impls of /repo's working tree per configuration; lsa/rules: Python rule engine (CFG, provenance, edge facts, interprocedural typestate solver, call graph, dataflow) deciding per-property obligations"},
    ],
    "checks": checks,
    "notes": "fix: commits in /repo: 06bb2c2 (F1), d107a1e (F2), 3518607 (F3), 6567ca9 (F4); see known_findings.json and DESIGN.md section 5. seeded/: 300 confirmed breaking changes and 238 behaviour-preserving patches the checks were run against (MATRIX.md, BENIGN.md; DESIGN.md 11.4).",
    "not_applicable": na,
}
json.dump(m, open(os.path.join(VERIF, "MANIFEST.json"), "w"), indent=1)
print("claimed:", [c["property_id"] for c in checks])
print("not applicable:", [n["property_id"] for n in na])
