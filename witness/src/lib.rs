//! Compile-time witnesses (E3): each `compile_fail` block has a compiling twin that differs only by
//! the offending line, so a witness cannot pass because of an unrelated error.
//!
//! W1 — LeanString is Send + Sync (C04):
//! ```
//! fn assert_send_sync<T: Send + Sync>() {}
//! assert_send_sync::<lean_string::LeanString>();
//! ```
//!
//! W2 — no mutable view through Deref (C02): twin
//! ```
//! let mut s = lean_string::LeanString::from("abc");
//! let r: &str = &*s;
//! let _ = r;
//! s.push('x');
//! ```
//! witness
//! ```compile_fail,E0596
//! let mut s = lean_string::LeanString::from("abc");
//! let r: &mut str = &mut *s;
//! let _ = r;
//! ```
//!
//! W3 — no `as_mut_str` / `as_mut_vec` style accessor (C02): twin
//! ```
//! let mut s = lean_string::LeanString::from("abc");
//! let _ = s.as_str();
//! s.push('x');
//! ```
//! witness
//! ```compile_fail,E0599
//! let mut s = lean_string::LeanString::from("abc");
//! let _ = s.as_mut_str();
//! ```
//! `str::as_bytes_mut` would be reached through auto-deref, which needs DerefMut:
//! ```compile_fail,E0596
//! let mut s = lean_string::LeanString::from("abc");
//! let _ = unsafe { s.as_bytes_mut() };
//! ```
//!
//! W4 — AsMut<str> / BorrowMut<str> are not implemented (C02): twin
//! ```
//! fn takes<T: AsRef<str>>(_: &T) {}
//! takes(&lean_string::LeanString::new());
//! ```
//! witness
//! ```compile_fail,E0277
//! fn takes<T: AsMut<str>>(_: &mut T) {}
//! takes(&mut lean_string::LeanString::new());
//! ```
